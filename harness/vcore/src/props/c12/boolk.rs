//! Boolean kernels (and / or / and_not / not, Kleene forms, is_null) against
//! three-valued truth tables, and bitwise kernels against two's complement
//! bit operations (exhaustive for 8-bit types).

use super::agg::NatVal;
use super::model;
use super::sweep::prim;
use crate::build;
use crate::extract::{extract, logical_null_mask};
use crate::gens::{self, type_class};
use crate::mon::{Ctx, Outcome, run_op};
use crate::rng::Rng;
use crate::val::{Val, dump_vals};
use arrow_arith::{bitwise as bw, boolean as bk};
use arrow_array::cast::AsArray;
use arrow_array::types::*;
use arrow_array::*;
use arrow_schema::DataType;
use num_traits::ToPrimitive;

#[derive(Clone, Copy, Debug, PartialEq, Eq)]
enum BOp {
    And,
    Or,
    AndNot,
    AndKleene,
    OrKleene,
}

const BOPS: [BOp; 5] = [BOp::And, BOp::Or, BOp::AndNot, BOp::AndKleene, BOp::OrKleene];

impl BOp {
    fn name(&self) -> &'static str {
        match self {
            BOp::And => "and",
            BOp::Or => "or",
            BOp::AndNot => "and_not",
            BOp::AndKleene => "and_kleene",
            BOp::OrKleene => "or_kleene",
        }
    }
}

/// three-valued truth tables (None = unknown / null)
fn truth(op: BOp, l: Option<bool>, r: Option<bool>) -> Option<bool> {
    match op {
        BOp::And => Some(l? & r?),
        BOp::Or => Some(l? | r?),
        BOp::AndNot => Some(l? & !r?),
        BOp::AndKleene if model::broken("kleene") => Some(l? & r?),
        BOp::AndKleene => match (l, r) {
            (Some(false), _) | (_, Some(false)) => Some(false),
            (Some(true), Some(true)) => Some(true),
            _ => None,
        },
        BOp::OrKleene => match (l, r) {
            (Some(true), _) | (_, Some(true)) => Some(true),
            (Some(false), Some(false)) => Some(false),
            _ => None,
        },
    }
}

fn tv(v: &Val) -> Option<bool> {
    v.as_bool()
}

fn to_val(b: Option<bool>) -> Val {
    match b {
        Some(x) => Val::Bool(x),
        None => Val::Null,
    }
}

fn gen_bool_col(rng: &mut Rng, n: usize) -> (Vec<Val>, &'static str) {
    let (cls, pn, pt): (&'static str, (u32, u32), (u32, u32)) = *rng.pick(&[
        ("nonull", (0, 1), (1, 2)),
        ("nonull", (0, 1), (1, 20)),
        ("nonull", (0, 1), (19, 20)),
        ("third", (1, 3), (1, 2)),
        ("sparse", (1, 10), (1, 2)),
        ("dense", (9, 10), (1, 2)),
        ("all-null", (1, 1), (1, 2)),
        ("third", (1, 3), (1, 10)),
    ]);
    (
        (0..n).map(|_| if rng.chance(pn.0, pn.1) { Val::Null } else { Val::Bool(rng.chance(pt.0, pt.1)) }).collect(),
        cls,
    )
}

fn bool_len(rng: &mut Rng) -> usize {
    match rng.below(8) {
        0 => 500 + rng.below(3000),
        1 | 2 => *rng.pick(&[0usize, 1, 7, 8, 9, 63, 64, 65, 127, 128, 129, 191, 192, 193, 255, 256, 257]),
        _ => rng.below(200),
    }
}

fn bool_binary_case(ctx: &mut Ctx, rng: &mut Rng) {
    let n = bool_len(rng);
    let (mut l, lc) = gen_bool_col(rng, n);
    let (mut r, rc) = gen_bool_col(rng, n);
    // make sure all nine (T, F, N) x (T, F, N) combinations occur when there is room
    if n >= 9 && rng.chance(3, 4) {
        let base = rng.below(n - 8);
        let t = [Val::Bool(true), Val::Bool(false), Val::Null];
        for i in 0..9 {
            l[base + i] = t[i / 3].clone();
            r[base + i] = t[i % 3].clone();
        }
    }
    let mismatch = rng.chance(1, 40);
    if mismatch {
        r.push(Val::Bool(true));
    }
    let la = build::realise(rng, &DataType::Boolean, &l);
    let ra = build::realise(rng, &DataType::Boolean, &r);
    let (lb, rb) = (la.as_boolean(), ra.as_boolean());
    for op in BOPS {
        let out = run_op(|| match op {
            BOp::And => bk::and(lb, rb),
            BOp::Or => bk::or(lb, rb),
            BOp::AndNot => bk::and_not(lb, rb),
            BOp::AndKleene => bk::and_kleene(lb, rb),
            BOp::OrKleene => bk::or_kleene(lb, rb),
        });
        ctx.count("bool_calls", 1);
        let witness = |d: &str| {
            format!(
                "{}: lhs(offset {}, nulls {}) {} rhs(offset {}, nulls {}) {}\n{d}",
                op.name(),
                lb.offset(),
                lb.nulls().is_some(),
                dump_vals(&l),
                rb.offset(),
                rb.nulls().is_some(),
                dump_vals(&r)
            )
        };
        let sigf = |kind: &str| format!("C12|boolk|{}|{kind}", op.name());
        match out {
            Outcome::Panic(p) => ctx.panic_violation(&format!("boolk|{}", op.name()), &p, witness("")),
            Outcome::Err(e) => {
                if !mismatch {
                    ctx.violation(&sigf("spurious-err"), witness(&format!("Err({e})")));
                }
            }
            Outcome::Ok(a) => {
                if mismatch {
                    ctx.violation(&sigf("length-mismatch-accepted"), witness(&format!("lengths {} and {} accepted, {} rows", l.len(), r.len(), a.len())));
                    continue;
                }
                let got = extract(&a);
                let want: Vec<Val> = l.iter().zip(&r).map(|(x, y)| to_val(truth(op, tv(x), tv(y)))).collect();
                if got != want {
                    let i = got.iter().zip(&want).position(|(g, w)| g != w).unwrap_or(got.len().min(want.len()));
                    ctx.violation(
                        &sigf(if got.len() != want.len() { "wrong-len" } else if got[i].is_null() != want[i].is_null() { "wrong-null" } else { "wrong-value" }),
                        witness(&format!("row {i}: lhs {:?} rhs {:?} expected {:?} got {:?}", l.get(i), r.get(i), want.get(i), got.get(i))),
                    );
                } else if let Err(e) = crate::validate::check_array(&a) {
                    ctx.violation(&sigf("invalid-output"), witness(&e));
                }
                if n > 0 {
                    ctx.class(format!("boolk|{}|{lc}/{rc}|nb{}{}|ok", op.name(), lb.nulls().is_some() as u8, rb.nulls().is_some() as u8));
                }
            }
        }
    }
    ctx.eval();
}

fn bool_not_case(ctx: &mut Ctx, rng: &mut Rng) {
    let n = bool_len(rng);
    let (l, lc) = gen_bool_col(rng, n);
    let la = build::realise(rng, &DataType::Boolean, &l);
    let out = run_op(|| bk::not(la.as_boolean()));
    ctx.eval();
    ctx.count("bool_calls", 1);
    match out {
        Outcome::Panic(p) => ctx.panic_violation("boolk|not", &p, dump_vals(&l)),
        Outcome::Err(e) => ctx.violation("C12|boolk|not|spurious-err", format!("not never fails: {e}\n{}", dump_vals(&l))),
        Outcome::Ok(a) => {
            let got = extract(&a);
            let want: Vec<Val> = l.iter().map(|x| to_val(tv(x).map(|b| !b))).collect();
            if got != want {
                ctx.violation("C12|boolk|not|wrong-value", format!("input {} expected {} got {}", dump_vals(&l), dump_vals(&want), dump_vals(&got)));
            }
            if n > 0 {
                ctx.class(format!("boolk|not|{lc}|ok"));
            }
        }
    }
}

fn is_null_case(ctx: &mut Ctx, rng: &mut Rng) {
    let cfg = gens::TypeCfg::all().depth(1);
    let dt = gens::gen_type(rng, &cfg);
    let n = rng.len_biased(90);
    let vals = gens::gen_column(rng, &dt, n, true, &cfg);
    let arr = build::realise(rng, &dt, &vals);
    let mask = logical_null_mask(&vals);
    for (name, negate) in [("is_null", false), ("is_not_null", true)] {
        let out = run_op(|| if negate { bk::is_not_null(arr.as_ref()) } else { bk::is_null(arr.as_ref()) });
        ctx.count("bool_calls", 1);
        match out {
            Outcome::Panic(p) => ctx.panic_violation(&format!("boolk|{name}"), &p, format!("{dt}: {}", dump_vals(&vals))),
            Outcome::Err(e) => ctx.violation(&format!("C12|boolk|{name}|spurious-err"), format!("{dt}: {e}")),
            Outcome::Ok(a) => {
                let got = extract(&a);
                let want: Vec<Val> = mask.iter().map(|m| Val::Bool(*m != negate)).collect();
                if got != want {
                    let i = got.iter().zip(&want).position(|(g, w)| g != w).unwrap_or(0);
                    ctx.violation(
                        &format!("C12|boolk|{name}|{}|wrong-value", type_class(&dt).split('<').next().unwrap_or("")),
                        format!("{name}({dt}) row {i}: value {:?} expected {:?} got {:?}\nvalues {}", vals.get(i), want.get(i), got.get(i), dump_vals(&vals)),
                    );
                }
                if n > 0 {
                    ctx.class(format!("boolk|{name}|{}", type_class(&dt).split('<').next().unwrap_or("")));
                }
            }
        }
    }
    ctx.eval();
}

pub fn run_bool(ctx: &mut Ctx) {
    let total = ctx.tier.pick(60, 240_000, 2_400_000);
    let cap = super::Cap::new(ctx, 4);
    for i in ctx.cases("boolk", total) {
        if ctx.out_of_time() || cap.over() {
            break;
        }
        let mut rng = ctx.begin("boolk", i);
        super::guarded(ctx, "boolk", |ctx| match rng.below(10) {
            0 => bool_not_case(ctx, &mut rng),
            1 | 2 => is_null_case(ctx, &mut rng),
            _ => bool_binary_case(ctx, &mut rng),
        });
    }
}

// ---------------------------------------------------------------- bitwise

#[derive(Clone, Copy, Debug, PartialEq, Eq)]
enum WOp {
    And,
    Or,
    Xor,
    AndNot,
    Shl,
    Shr,
}

const WOPS: [WOp; 6] = [WOp::And, WOp::Or, WOp::Xor, WOp::AndNot, WOp::Shl, WOp::Shr];

impl WOp {
    fn name(&self) -> &'static str {
        match self {
            WOp::And => "bitwise_and",
            WOp::Or => "bitwise_or",
            WOp::Xor => "bitwise_xor",
            WOp::AndNot => "bitwise_and_not",
            WOp::Shl => "bitwise_shift_left",
            WOp::Shr => "bitwise_shift_right",
        }
    }
}

/// model on sign-extended i128 values of a `bits`-wide type; None = not asserted
fn bit_model(op: WOp, bits: u32, signed: bool, a: i128, b: i128) -> Option<i128> {
    let ph = model::Phys { bits, signed };
    let wrap = |x: i128| ph.wrap(&num_bigint::BigInt::from(x)).to_i128().unwrap();
    Some(match op {
        WOp::And => a & b,
        WOp::Or => a | b,
        WOp::Xor if model::broken("bit-xor") => a | b,
        WOp::Xor => a ^ b,
        WOp::AndNot => wrap(a & !b),
        WOp::Shl => {
            // not asserted: shift amounts outside 0..bits
            if b < 0 || b >= bits as i128 {
                return None;
            }
            wrap(a << b)
        }
        WOp::Shr => {
            if b < 0 || b >= bits as i128 {
                return None;
            }
            // arithmetic shift for signed, logical for unsigned (values are non-negative then)
            a >> b
        }
    })
}

pub trait BitNative: NatVal + ArrowNativeTypeOp + std::ops::BitAnd<Output = Self> + std::ops::BitOr<Output = Self> + std::ops::BitXor<Output = Self> + std::ops::Not<Output = Self> + num_traits::WrappingShl<Output = Self> + num_traits::WrappingShr<Output = Self> {}
impl<T> BitNative for T where T: NatVal + ArrowNativeTypeOp + std::ops::BitAnd<Output = T> + std::ops::BitOr<Output = T> + std::ops::BitXor<Output = T> + std::ops::Not<Output = T> + num_traits::WrappingShl<Output = T> + num_traits::WrappingShr<Output = T> {}

fn bit_check<T: ArrowPrimitiveType>(
    ctx: &mut Ctx,
    what: &str,
    fam: &str,
    out: Outcome<PrimitiveArray<T>>,
    want: &[Option<Option<i128>>], // None: null; Some(None): free; Some(Some(x))
    witness: &dyn Fn() -> String,
) where
    T::Native: BitNative,
{
    let sigf = |kind: &str| format!("C12|bitw|{what}|{fam}|{kind}");
    match out {
        Outcome::Panic(p) => ctx.panic_violation(&format!("bitw|{what}"), &p, witness()),
        Outcome::Err(e) => ctx.violation(&sigf("spurious-err"), format!("{e}\n{}", witness())),
        Outcome::Ok(a) => {
            if a.len() != want.len() {
                ctx.violation(&sigf("wrong-len"), format!("len {} expected {}\n{}", a.len(), want.len(), witness()));
                return;
            }
            for (i, w) in want.iter().enumerate() {
                match w {
                    None => {
                        if a.is_valid(i) {
                            ctx.violation(&sigf("wrong-null"), format!("row {i} expected null\n{}", witness()));
                            return;
                        }
                    }
                    Some(x) => {
                        if a.is_null(i) {
                            ctx.violation(&sigf("wrong-null"), format!("row {i} unexpectedly null\n{}", witness()));
                            return;
                        }
                        if let Some(x) = x {
                            let g = a.value(i).to_val().int().unwrap();
                            if g != *x {
                                ctx.violation(&sigf("wrong-value"), format!("row {i}: expected {x} got {g}\n{}", witness()));
                                return;
                            }
                        }
                    }
                }
            }
        }
    }
}

/// One bitwise round over the operand vectors `a`, `b` (same length) with validity.
fn bit_round<T: ArrowPrimitiveType>(ctx: &mut Ctx, rng: &mut Rng, fam: &str, bits: u32, signed: bool, a: &[i128], b: &[i128], va: &[bool], vb: &[bool])
where
    T::Native: BitNative,
{
    let n = a.len();
    let conv = |x: &i128| <T::Native as NatVal>::from_val(&Val::Int(*x));
    let (ca, cb) = (rng.bool(), rng.bool());
    let la = prim::<T>(rng, a.iter().map(conv).collect(), if va.iter().all(|x| *x) && ca { None } else { Some(va) });
    let ra = prim::<T>(rng, b.iter().map(conv).collect(), if vb.iter().all(|x| *x) && cb { None } else { Some(vb) });
    let wit = |name: &str| format!("{name} {} n={n} first lhs {:?} rhs {:?}", T::DATA_TYPE, &a[..n.min(8)], &b[..n.min(8)]);
    for op in WOPS {
        let want: Vec<Option<Option<i128>>> = (0..n).map(|i| if va[i] && vb[i] { Some(bit_model(op, bits, signed, a[i], b[i])) } else { None }).collect();
        let out = run_op(|| match op {
            WOp::And => bw::bitwise_and(&la, &ra),
            WOp::Or => bw::bitwise_or(&la, &ra),
            WOp::Xor => bw::bitwise_xor(&la, &ra),
            WOp::AndNot => bw::bitwise_and_not(&la, &ra),
            WOp::Shl => bw::bitwise_shift_left(&la, &ra),
            WOp::Shr => bw::bitwise_shift_right(&la, &ra),
        });
        ctx.count("bitwise_calls", 1);
        bit_check::<T>(ctx, op.name(), fam, out, &want, &|| wit(op.name()));
    }
    // not
    let want: Vec<Option<Option<i128>>> = (0..n)
        .map(|i| if va[i] { Some(model::Phys { bits, signed }.wrap(&num_bigint::BigInt::from(!a[i])).to_i128()) } else { None })
        .collect();
    let out = run_op(|| bw::bitwise_not(&la));
    ctx.count("bitwise_calls", 1);
    bit_check::<T>(ctx, "bitwise_not", fam, out, &want, &|| wit("bitwise_not"));
    // scalar forms with the first rhs value
    if n > 0 {
        let s = b[rng.below(n)];
        let sn = conv(&s);
        for op in [WOp::And, WOp::Or, WOp::Xor, WOp::Shl, WOp::Shr] {
            let want: Vec<Option<Option<i128>>> = (0..n).map(|i| if va[i] { Some(bit_model(op, bits, signed, a[i], s)) } else { None }).collect();
            let out = run_op(|| match op {
                WOp::And => bw::bitwise_and_scalar(&la, sn),
                WOp::Or => bw::bitwise_or_scalar(&la, sn),
                WOp::Xor => bw::bitwise_xor_scalar(&la, sn),
                WOp::Shl => bw::bitwise_shift_left_scalar(&la, sn),
                _ => bw::bitwise_shift_right_scalar(&la, sn),
            });
            ctx.count("bitwise_calls", 1);
            let name = format!("{}_scalar", op.name());
            bit_check::<T>(ctx, &name, fam, out, &want, &|| format!("{} scalar {s}", wit(&name)));
        }
    }
}

fn exhaustive8<T: ArrowPrimitiveType>(ctx: &mut Ctx, rng: &mut Rng, fam: &str, signed: bool, slice: i128)
where
    T::Native: BitNative,
{
    // lhs values of this slice (16 of 256) against all 256 rhs values
    let (min, _max) = if signed { (-128i128, 127i128) } else { (0, 255) };
    let mut a = Vec::with_capacity(4096);
    let mut b = Vec::with_capacity(4096);
    for x in 0..16 {
        for y in 0..256 {
            a.push(min + slice * 16 + x);
            b.push(min + y);
        }
    }
    let n = a.len();
    let all = vec![true; n];
    bit_round::<T>(ctx, rng, fam, 8, signed, &a, &b, &all, &all);
    let va: Vec<bool> = (0..n).map(|_| !rng.chance(1, 6)).collect();
    let vb: Vec<bool> = (0..n).map(|_| !rng.chance(1, 6)).collect();
    bit_round::<T>(ctx, rng, fam, 8, signed, &a, &b, &va, &vb);
    ctx.count("bitwise8_pairs", n as u64);
}

fn random_bits<T: ArrowPrimitiveType>(ctx: &mut Ctx, rng: &mut Rng, fam: &str, bits: u32, signed: bool)
where
    T::Native: BitNative,
{
    let ph = model::Phys { bits, signed };
    let n = rng.len_biased(150);
    let g = |rng: &mut Rng| super::gen_phys(rng, ph).to_i128().unwrap();
    let a: Vec<i128> = (0..n).map(|_| g(rng)).collect();
    let shifty = rng.bool();
    let b: Vec<i128> = (0..n)
        .map(|_| {
            if shifty {
                let v = rng.range(-2, bits as i64 + 2) as i128;
                if !signed { v.max(0) } else { v }
            } else {
                g(rng)
            }
        })
        .collect();
    let va: Vec<bool> = (0..n).map(|_| !rng.chance(1, 5)).collect();
    let vb: Vec<bool> = (0..n).map(|_| !rng.chance(1, 5)).collect();
    bit_round::<T>(ctx, rng, fam, bits, signed, &a, &b, &va, &vb);
    if n > 0 {
        ctx.class(format!("bitw|{}|{}", T::DATA_TYPE, if shifty { "shift-amounts" } else { "any" }));
    }
}

/// Returns true when the exhaustive 8-bit part of this shard completed.
pub fn run_bitwise(ctx: &mut Ctx) -> bool {
    let mut complete = true;
    let ex_total = if ctx.tier == crate::mon::Tier::Tiny { 2 } else { 32 };
    for i in ctx.cases("bitw8", ex_total) {
        if ctx.out_of_time() {
            complete = false;
            break;
        }
        let mut rng = ctx.begin("bitw8", i);
        super::guarded(ctx, "bitw8", |ctx| {
            if i / 16 == 0 {
                exhaustive8::<Int8Type>(ctx, &mut rng, "int", true, (i % 16) as i128);
            } else {
                exhaustive8::<UInt8Type>(ctx, &mut rng, "uint", false, (i % 16) as i128);
            }
        });
        ctx.eval();
        ctx.class(format!("bitw8|{}|slice{}", if i / 16 == 0 { "Int8" } else { "UInt8" }, i % 16));
    }
    let total = ctx.tier.pick(20, 80_000, 800_000);
    let cap = super::Cap::new(ctx, 3);
    for i in ctx.cases("bitw", total) {
        if ctx.out_of_time() || cap.over() {
            break;
        }
        let mut rng = ctx.begin("bitw", i);
        super::guarded(ctx, "bitw", |ctx| match rng.below(8) {
            0 => random_bits::<Int8Type>(ctx, &mut rng, "int", 8, true),
            1 => random_bits::<Int16Type>(ctx, &mut rng, "int", 16, true),
            2 => random_bits::<Int32Type>(ctx, &mut rng, "int", 32, true),
            3 => random_bits::<Int64Type>(ctx, &mut rng, "int", 64, true),
            4 => random_bits::<UInt8Type>(ctx, &mut rng, "uint", 8, false),
            5 => random_bits::<UInt16Type>(ctx, &mut rng, "uint", 16, false),
            6 => random_bits::<UInt32Type>(ctx, &mut rng, "uint", 32, false),
            _ => random_bits::<UInt64Type>(ctx, &mut rng, "uint", 64, false),
        });
        ctx.eval();
    }
    complete
}
