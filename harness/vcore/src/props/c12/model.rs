//! Reference model of the arrow-arith numeric kernels: exact arithmetic in
//! `num-bigint`, IEEE floats by widened computation, decimals by the documented
//! precision/scale rules, temporal types by an own day-count calendar.

use super::civil;
use crate::val::Val;
use arrow_buffer::i256;
use arrow_schema::{DataType, IntervalUnit, TimeUnit};
use num_bigint::{BigInt, Sign};
use num_traits::{One, Signed, ToPrimitive, Zero};

#[derive(Clone, Copy, PartialEq, Eq, Debug)]
pub enum Op {
    Add,
    AddW,
    Sub,
    SubW,
    Mul,
    MulW,
    Div,
    Rem,
}

#[derive(Clone, Copy, PartialEq, Eq, Debug)]
pub enum Base {
    Add,
    Sub,
    Mul,
    Div,
    Rem,
}

pub const ALL_OPS: [Op; 8] = [
    Op::Add,
    Op::AddW,
    Op::Sub,
    Op::SubW,
    Op::Mul,
    Op::MulW,
    Op::Div,
    Op::Rem,
];

impl Op {
    pub fn name(&self) -> &'static str {
        match self {
            Op::Add => "add",
            Op::AddW => "add_wrapping",
            Op::Sub => "sub",
            Op::SubW => "sub_wrapping",
            Op::Mul => "mul",
            Op::MulW => "mul_wrapping",
            Op::Div => "div",
            Op::Rem => "rem",
        }
    }
    pub fn wrapping(&self) -> bool {
        matches!(self, Op::AddW | Op::SubW | Op::MulW)
    }
    pub fn base(&self) -> Base {
        match self {
            Op::Add | Op::AddW => Base::Add,
            Op::Sub | Op::SubW => Base::Sub,
            Op::Mul | Op::MulW => Base::Mul,
            Op::Div => Base::Div,
            Op::Rem => Base::Rem,
        }
    }
}

/// Self-test switch: `C12_BREAK_MODEL=<name>` deliberately breaks one rule of the
/// reference model so that the power of the oracle can be demonstrated without
/// touching arrow-rs (never set in real runs).
pub fn broken(name: &str) -> bool {
    static B: std::sync::OnceLock<String> = std::sync::OnceLock::new();
    B.get_or_init(|| std::env::var("C12_BREAK_MODEL").unwrap_or_default()) == name
}

/// What the oracle accepts for one valid (non-null) row.
#[derive(Clone, Debug)]
pub struct Cell {
    /// acceptable Ok values
    pub ok: Vec<Val>,
    /// an error of the whole call is acceptable because of this row
    pub err_ok: bool,
    /// nothing asserted about the value (still: no panic, nulls exact)
    pub free: bool,
    /// the value a silently wrapping implementation would produce (classification only)
    pub wrapped: Option<Val>,
}

impl Cell {
    pub fn v(x: Val) -> Cell {
        Cell { ok: vec![x], err_ok: false, free: false, wrapped: None }
    }
    pub fn err() -> Cell {
        Cell { ok: vec![], err_ok: true, free: false, wrapped: None }
    }
    pub fn either(x: Val) -> Cell {
        Cell { ok: vec![x], err_ok: true, free: false, wrapped: None }
    }
    pub fn one_of(xs: Vec<Val>, err_ok: bool) -> Cell {
        Cell { ok: xs, err_ok, free: false, wrapped: None }
    }
    pub fn free() -> Cell {
        Cell { ok: vec![], err_ok: true, free: true, wrapped: None }
    }
    pub fn err_wrapped(w: Val) -> Cell {
        Cell { ok: vec![], err_ok: true, free: false, wrapped: Some(w) }
    }
    pub fn must_err(&self) -> bool {
        self.ok.is_empty() && !self.free
    }
}

// ---------------------------------------------------------------- big ints

#[derive(Clone, Copy, Debug, PartialEq, Eq)]
pub struct Phys {
    pub bits: u32,
    pub signed: bool,
}

pub fn big_i256(v: i256) -> BigInt {
    BigInt::from_signed_bytes_le(&v.to_le_bytes())
}

pub fn i256_from_big(b: &BigInt) -> Option<i256> {
    let bytes = b.to_signed_bytes_le();
    if bytes.len() > 32 {
        return None;
    }
    let fill = if b.sign() == Sign::Minus { 0xFFu8 } else { 0 };
    let mut out = [fill; 32];
    out[..bytes.len()].copy_from_slice(&bytes);
    Some(i256::from_le_bytes(out))
}

pub fn pow2(k: u32) -> BigInt {
    BigInt::one() << k
}

pub fn pow10(k: u32) -> BigInt {
    let mut r = BigInt::one();
    let ten = BigInt::from(10);
    for _ in 0..k {
        r *= &ten;
    }
    r
}

impl Phys {
    pub fn min(&self) -> BigInt {
        if self.signed { -pow2(self.bits - 1) } else { BigInt::zero() }
    }
    pub fn max(&self) -> BigInt {
        if self.signed { pow2(self.bits - 1) - 1 } else { pow2(self.bits) - 1 }
    }
    pub fn fits(&self, v: &BigInt) -> bool {
        *v >= self.min() && *v <= self.max()
    }
    /// v modulo 2^bits, interpreted in the type's range
    pub fn wrap(&self, v: &BigInt) -> BigInt {
        let m = pow2(self.bits);
        let mut r = v % &m;
        if r.is_negative() {
            r += &m;
        }
        if self.signed && r >= pow2(self.bits - 1) {
            r -= &m;
        }
        r
    }
}

/// physical integer layout of integer-backed scalar types
pub fn phys_of(dt: &DataType) -> Option<Phys> {
    use DataType::*;
    let (bits, signed) = match dt {
        Int8 => (8, true),
        Int16 => (16, true),
        Int32 => (32, true),
        Int64 => (64, true),
        UInt8 => (8, false),
        UInt16 => (16, false),
        UInt32 => (32, false),
        UInt64 => (64, false),
        Decimal32(_, _) => (32, true),
        Decimal64(_, _) => (64, true),
        Decimal128(_, _) => (128, true),
        Decimal256(_, _) => (256, true),
        Date32 | Time32(_) | Interval(IntervalUnit::YearMonth) => (32, true),
        Date64 | Time64(_) | Timestamp(_, _) | Duration(_) => (64, true),
        _ => return None,
    };
    Some(Phys { bits, signed })
}

pub fn val_big(v: &Val) -> BigInt {
    match v {
        Val::Int(i) => BigInt::from(*i),
        Val::Big(b) => big_i256(*b),
        o => panic!("model: expected integer value, got {o:?}"),
    }
}

/// integer value of the physical type of `dt` (must fit)
pub fn big_val(dt: &DataType, b: &BigInt) -> Val {
    if matches!(dt, DataType::Decimal256(_, _)) {
        Val::Big(i256_from_big(b).expect("model: i256 range"))
    } else {
        Val::Int(b.to_i128().expect("model: i128 range"))
    }
}

/// truncated division (toward zero) and remainder (sign of dividend)
pub fn tdiv(a: &BigInt, b: &BigInt) -> BigInt {
    a / b
}
pub fn trem(a: &BigInt, b: &BigInt) -> BigInt {
    a % b
}
pub fn bfloor_div(a: &BigInt, b: &BigInt) -> BigInt {
    let q = a / b;
    let r = a % b;
    if !r.is_zero() && (r.is_negative() != b.is_negative()) { q - 1 } else { q }
}

// ---------------------------------------------------------------- floats

/// exact f16 bits -> f64
pub fn f16_to_f64(bits: u16) -> f64 {
    let sign = if bits & 0x8000 != 0 { -1.0 } else { 1.0 };
    let e = ((bits >> 10) & 0x1F) as i32;
    let m = (bits & 0x3FF) as f64;
    if e == 0x1F {
        if m == 0.0 { sign * f64::INFINITY } else { f64::NAN }
    } else if e == 0 {
        sign * m * 2f64.powi(-24)
    } else {
        sign * (1024.0 + m) * 2f64.powi(e - 25)
    }
}

/// f64 -> f16 bits, round to nearest even (own implementation)
pub fn f64_to_f16(x: f64) -> u16 {
    let b = x.to_bits();
    let sign = ((b >> 63) as u16) << 15;
    if x.is_nan() {
        return sign | 0x7E00;
    }
    let a = x.abs();
    if a == 0.0 {
        return sign;
    }
    if a.is_infinite() {
        return sign | 0x7C00;
    }
    // scaled = a / 2^-24 (the f16 subnormal quantum); exact power-of-two scaling
    // quantise at 2^q where q = max(exponent - 10, -24)
    let exp = ((a.to_bits() >> 52) & 0x7FF) as i32 - 1023; // floor(log2 a) for normal f64
    let exp = if (a.to_bits() >> 52) & 0x7FF == 0 { -1074 } else { exp };
    let q = (exp - 10).max(-24);
    // n = a / 2^q, 0 <= n < 2048; 2^-q built from its bit pattern (exact)
    let scale = f64::from_bits(((1023 - q) as u64) << 52);
    let n = a * scale;
    let fl = n.floor();
    let frac = n - fl;
    let mut k = fl as u64;
    if frac > 0.5 || (frac == 0.5 && k % 2 == 1) {
        k += 1;
    }
    // k * 2^q
    if k == 0 {
        return sign;
    }
    let mut q = q;
    let mut k = k;
    if k >= 2048 {
        // carried into the next binade (k == 2048)
        k >>= 1;
        q += 1;
    }
    if q == -24 && k < 1024 {
        return sign | k as u16; // subnormal
    }
    // normal: k in [1024, 2047], exponent field = q + 25
    let e = q + 25;
    if e >= 31 {
        return sign | 0x7C00;
    }
    sign | ((e as u16) << 10) | ((k as u16) & 0x3FF)
}

#[derive(Clone, Copy, Debug, PartialEq, Eq)]
pub enum FW {
    F16,
    F32,
    F64,
}

pub fn fw_of(dt: &DataType) -> Option<FW> {
    match dt {
        DataType::Float16 => Some(FW::F16),
        DataType::Float32 => Some(FW::F32),
        DataType::Float64 => Some(FW::F64),
        _ => None,
    }
}

pub fn float_to_f64(v: &Val) -> f64 {
    match v {
        Val::F16(b) => f16_to_f64(*b),
        Val::F32(b) => f32::from_bits(*b) as f64,
        Val::F64(b) => f64::from_bits(*b),
        o => panic!("model: expected float got {o:?}"),
    }
}

pub fn f64_to_float(w: FW, x: f64) -> Val {
    match w {
        FW::F16 => Val::F16(f64_to_f16(x)),
        FW::F32 => Val::F32((x as f32).to_bits()),
        FW::F64 => Val::F64(x.to_bits()),
    }
}

pub fn float_is_nan(v: &Val) -> bool {
    match v {
        Val::F16(b) => (b & 0x7C00) == 0x7C00 && (b & 0x3FF) != 0,
        Val::F32(b) => f32::from_bits(*b).is_nan(),
        Val::F64(b) => f64::from_bits(*b).is_nan(),
        _ => false,
    }
}

/// value equality with "any NaN equals any NaN" for floats
pub fn val_eq(a: &Val, b: &Val) -> bool {
    if a == b {
        return true;
    }
    float_is_nan(a) && float_is_nan(b) && std::mem::discriminant(a) == std::mem::discriminant(b)
}

/// IEEE binary operation: computed in f64 and rounded once more to the target
/// width (innocuous double rounding for + - * / since 53 >= 2p+2 for p = 11, 24;
/// fmod is exact).
pub fn float_op(w: FW, base: Base, l: &Val, r: &Val) -> Val {
    let (a, b) = (float_to_f64(l), float_to_f64(r));
    let x = match base {
        Base::Add => a + b,
        Base::Sub => a - b,
        Base::Mul => a * b,
        Base::Div => a / b,
        Base::Rem => a % b,
    };
    // self-test: truncate instead of rounding to nearest
    if broken("float-round") && w != FW::F64 && x.is_finite() {
        return match w {
            FW::F16 => Val::F16(f64_to_f16(x) & !1),
            _ => Val::F32((x as f32).to_bits() & !1),
        };
    }
    f64_to_float(w, x)
}

pub fn float_neg(v: &Val) -> Val {
    match v {
        Val::F16(b) => Val::F16(b ^ 0x8000),
        Val::F32(b) => Val::F32(b ^ 0x8000_0000),
        Val::F64(b) => Val::F64(b ^ 0x8000_0000_0000_0000),
        o => panic!("model: expected float got {o:?}"),
    }
}

// ---------------------------------------------------------------- integers

/// exact integer binary op; None = division by zero
pub fn exact_int(base: Base, a: &BigInt, b: &BigInt) -> Option<BigInt> {
    Some(match base {
        Base::Add => a + b,
        Base::Sub => a - b,
        Base::Mul => a * b,
        Base::Div => {
            if b.is_zero() {
                return None;
            }
            tdiv(a, b)
        }
        Base::Rem => {
            if b.is_zero() {
                return None;
            }
            trem(a, b)
        }
    })
}

/// plain integer kernel semantics (Int8..UInt64)
pub fn int_cell(op: Op, dt: &DataType, ph: Phys, l: &Val, r: &Val) -> Cell {
    let (a, b) = (val_big(l), val_big(r));
    match exact_int(op.base(), &a, &b) {
        None => Cell::err(),
        Some(x) => {
            let x = if broken("int-add") && op.base() == Base::Add && a == BigInt::from(7) { x + 1 } else { x };
            if ph.fits(&x) {
                Cell::v(big_val(dt, &x))
            } else if op.wrapping() {
                Cell::v(big_val(dt, &ph.wrap(&x)))
            } else if op == Op::Rem {
                unreachable!("model: remainder always fits")
            } else {
                Cell::err_wrapped(big_val(dt, &ph.wrap(&x)))
            }
        }
    }
}

// ---------------------------------------------------------------- decimals

#[derive(Clone, Copy, Debug, PartialEq, Eq)]
pub struct Dec {
    pub bits: u32,
    pub p: u8,
    pub s: i8,
}

pub fn dec_of(dt: &DataType) -> Option<Dec> {
    match dt {
        DataType::Decimal32(p, s) => Some(Dec { bits: 32, p: *p, s: *s }),
        DataType::Decimal64(p, s) => Some(Dec { bits: 64, p: *p, s: *s }),
        DataType::Decimal128(p, s) => Some(Dec { bits: 128, p: *p, s: *s }),
        DataType::Decimal256(p, s) => Some(Dec { bits: 256, p: *p, s: *s }),
        _ => None,
    }
}

pub fn dec_max_precision(bits: u32) -> i32 {
    match bits {
        32 => 9,
        64 => 18,
        128 => 38,
        _ => 76,
    }
}

pub fn dec_type(bits: u32, p: u8, s: i8) -> DataType {
    match bits {
        32 => DataType::Decimal32(p, s),
        64 => DataType::Decimal64(p, s),
        128 => DataType::Decimal128(p, s),
        _ => DataType::Decimal256(p, s),
    }
}

/// is (p, s) a valid decimal type of that width
pub fn dec_valid(bits: u32, p: i32, s: i32) -> bool {
    let maxp = dec_max_precision(bits);
    p >= 1 && p <= maxp && s <= maxp && !(s > 0 && s > p)
}

pub struct DecPlan {
    /// None: rejected (result type invalid / scale overflow)
    pub scale: Option<i8>,
    /// None: not asserted
    pub precision: Option<u8>,
    /// 10^a, 10^b rescale exponents for lhs / rhs
    pub la: u32,
    pub rb: u32,
    /// a rescale factor itself does not fit the physical type
    pub factor_overflow: bool,
    /// the documented precision formula yields a value < 1: the call may fail
    pub precision_unsound: bool,
}

/// Documented result type (Hive / postgres rules quoted in numeric.rs).
pub fn dec_plan(base: Base, l: Dec, r: Dec) -> DecPlan {
    let maxp = dec_max_precision(l.bits);
    let ph = Phys { bits: l.bits, signed: true };
    let (p1, s1, p2, s2) = (l.p as i32, l.s as i32, r.p as i32, r.s as i32);
    let mut plan = DecPlan { scale: None, precision: None, la: 0, rb: 0, factor_overflow: false, precision_unsound: false };
    match base {
        Base::Add | Base::Sub => {
            let rs = s1.max(s2);
            let rp = (rs + (p1 - s1).max(p2 - s2) + 1).min(maxp);
            plan.la = (rs - s1) as u32;
            plan.rb = (rs - s2) as u32;
            if dec_valid(l.bits, rp, rs) {
                plan.scale = Some(rs as i8);
                plan.precision = Some(rp as u8);
            }
        }
        Base::Mul => {
            let rs = s1 + s2;
            let rp = (p1 + p2 + 1).min(maxp);
            if rs <= maxp && dec_valid(l.bits, rp, rs) && rs >= i8::MIN as i32 {
                plan.scale = Some(rs as i8);
                plan.precision = Some(rp as u8);
            }
        }
        Base::Div => {
            let rs = (s1 + 4).min(maxp);
            let mul_pow = rs - s1 + s2;
            let rp_raw = mul_pow + p1;
            if mul_pow >= 0 {
                plan.la = mul_pow as u32;
            } else {
                plan.rb = (-mul_pow) as u32;
            }
            if rp_raw < 1 {
                // the documented formula has no meaning here: precision not asserted
                plan.scale = Some(rs as i8);
                plan.precision = None;
                plan.precision_unsound = true;
            } else {
                let rp = rp_raw.min(maxp);
                if dec_valid(l.bits, rp, rs) {
                    plan.scale = Some(rs as i8);
                    plan.precision = Some(rp as u8);
                }
            }
        }
        Base::Rem => {
            let rs = s1.max(s2);
            let rp = (rs + (p1 - s1).min(p2 - s2)).min(maxp);
            plan.la = (rs - s1) as u32;
            plan.rb = (rs - s2) as u32;
            if dec_valid(l.bits, rp, rs) {
                plan.scale = Some(rs as i8);
                plan.precision = Some(rp as u8);
            }
        }
    }
    if base != Base::Mul {
        plan.factor_overflow = !ph.fits(&pow10(plan.la)) || !ph.fits(&pow10(plan.rb));
    }
    plan
}

pub fn dec_in_precision(d: Dec, v: &BigInt) -> bool {
    v.abs() < pow10(d.p as u32)
}

/// one row of a decimal kernel; `out` is the result type
pub fn dec_cell(base: Base, l: Dec, r: Dec, plan: &DecPlan, out: &DataType, lv: &Val, rv: &Val) -> Cell {
    let ph = Phys { bits: l.bits, signed: true };
    let (a, b) = (val_big(lv), val_big(rv));
    // values beyond the declared precision are invalid data: only "never a
    // wrong value" is asserted for them
    let strict = dec_in_precision(l, &a) && dec_in_precision(r, &b);
    let mut cell = match base {
        Base::Mul => {
            let x = &a * &b;
            let x = if broken("dec-mul") && a == BigInt::from(3) { x + 1 } else { x };
            if ph.fits(&x) { Cell::v(big_val(out, &x)) } else { Cell::err_wrapped(big_val(out, &ph.wrap(&x))) }
        }
        Base::Add | Base::Sub => {
            let la = &a * pow10(plan.la);
            let rb = &b * pow10(plan.rb);
            let x = if base == Base::Add { &la + &rb } else { &la - &rb };
            let inter = !ph.fits(&la) || !ph.fits(&rb) || plan.factor_overflow;
            if !ph.fits(&x) {
                Cell::err_wrapped(big_val(out, &ph.wrap(&x)))
            } else if inter {
                // not asserted: an error when only an intermediate (rescaled
                // operand) exceeds the physical type
                Cell::either(big_val(out, &x))
            } else {
                Cell::v(big_val(out, &x))
            }
        }
        Base::Div => {
            if b.is_zero() {
                Cell::err()
            } else {
                let la = &a * pow10(plan.la);
                let rb = &b * pow10(plan.rb);
                let x = tdiv(&la, &rb);
                let inter = !ph.fits(&la) || !ph.fits(&rb) || plan.factor_overflow;
                if !ph.fits(&x) {
                    Cell::err()
                } else if inter {
                    Cell::either(big_val(out, &x))
                } else {
                    Cell::v(big_val(out, &x))
                }
            }
        }
        Base::Rem => {
            if b.is_zero() {
                Cell::err()
            } else {
                let la = &a * pow10(plan.la);
                let rb = &b * pow10(plan.rb);
                let x = trem(&la, &rb);
                let inter = !ph.fits(&la) || !ph.fits(&rb) || plan.factor_overflow;
                if !ph.fits(&x) {
                    Cell::err()
                } else if inter {
                    Cell::either(big_val(out, &x))
                } else {
                    Cell::v(big_val(out, &x))
                }
            }
        }
    };
    if !strict {
        cell.err_ok = true;
    }
    cell
}

// ---------------------------------------------------------------- temporal

pub fn unit_per_sec(u: &TimeUnit) -> i128 {
    match u {
        TimeUnit::Second => 1,
        TimeUnit::Millisecond => 1_000,
        TimeUnit::Microsecond => 1_000_000,
        TimeUnit::Nanosecond => 1_000_000_000,
    }
}

/// fixed-offset zone string -> offset seconds; None for anything else
pub fn tz_offset(tz: Option<&str>) -> Option<i128> {
    let Some(s) = tz else { return Some(0) };
    let b = s.as_bytes();
    if b.len() != 6 || (b[0] != b'+' && b[0] != b'-') || b[3] != b':' {
        return None;
    }
    let h: i128 = s[1..3].parse().ok()?;
    let m: i128 = s[4..6].parse().ok()?;
    let v = h * 3600 + m * 60;
    Some(if b[0] == b'-' { -v } else { v })
}

/// years beyond this are outside the strictly asserted window (chrono's
/// representable range is about +-262143 years)
pub const YEAR_WINDOW: i128 = 200_000;

const DAY_NS: i128 = 86_400_000_000_000;

/// interval as (months, days, sub-day nanoseconds)
pub fn interval_parts(v: &Val) -> (i128, i128, i128) {
    match v {
        Val::Int(m) => (*m, 0, 0),
        Val::IntervalDT(d, ms) => (0, *d as i128, *ms as i128 * 1_000_000),
        Val::IntervalMDN(m, d, n) => (*m as i128, *d as i128, *n as i128),
        o => panic!("model: expected interval got {o:?}"),
    }
}

/// timestamp (unit `ups` per second, zone offset `off` seconds) +/- interval.
/// Months and days act on the local calendar date (end-of-month clamped), the
/// sub-day part on the instant.
pub fn ts_interval_cell(ups: i128, off: i128, v: i128, iv: &Val, sign: i128) -> Cell {
    let (months, days, nanos) = interval_parts(iv);
    let (months, days, nanos) = (sign * months, sign * days, sign * nanos);
    let per_day = 86_400 * ups;
    let local = v + off * ups;
    let day0 = civil::fdiv(local, per_day);
    let tod = local - day0 * per_day;
    let mut in_window = true;
    let (y0, _, _) = civil::civil_from_days(day0);
    in_window &= y0.abs() <= YEAR_WINDOW;
    let mut day = day0;
    if months != 0 {
        let (d2, y) = civil::shift_day_by_months(day, months);
        day = d2;
        in_window &= y.abs() <= YEAR_WINDOW;
        if broken("ts-month-clamp") {
            // unclamped month arithmetic (31 Jan + 1 month = 3 Mar)
            let (y0, m0, d0) = civil::civil_from_days(day0);
            let total = y0 * 12 + (m0 - 1) + months;
            day = civil::days_from_civil(civil::fdiv(total, 12), civil::fmod(total, 12) + 1, 1) + d0 - 1;
        }
    }
    day += days;
    let (y2, _, _) = civil::civil_from_days(day);
    in_window &= y2.abs() <= YEAR_WINDOW;
    let v2 = day * per_day + tod - off * ups;
    // sub-day part: nanos * ups / 1e9 units
    let num = nanos * ups;
    let q = civil::fdiv(num, 1_000_000_000);
    let exact = civil::fmod(num, 1_000_000_000) == 0;
    let lo = v2 + q;
    let (y3, _, _) = civil::civil_from_days(civil::fdiv(lo + off * ups, per_day));
    in_window &= y3.abs() <= YEAR_WINDOW;
    let fits = |x: i128| x >= i64::MIN as i128 && x <= i64::MAX as i128;
    // not asserted: rounding direction when the interval's sub-day part is not a
    // whole number of the timestamp's unit (both neighbours accepted)
    let mut cands: Vec<Val> = Vec::new();
    if fits(lo) {
        cands.push(Val::Int(lo));
    }
    if !exact && fits(lo + 1) {
        cands.push(Val::Int(lo + 1));
    }
    if cands.is_empty() {
        return Cell::err();
    }
    // outside the window chrono's own range limits may produce an error although
    // the result is representable: error or exact value
    let err_ok = !in_window || (!exact && !(fits(lo) && fits(lo + 1)));
    Cell::one_of(cands, err_ok)
}

/// date (in days) +/- interval -> day number candidates
pub fn date_interval_days(day0: i128, iv: &Val, sign: i128) -> (Vec<i128>, bool) {
    let (months, days, nanos) = interval_parts(iv);
    let (months, days, nanos) = (sign * months, sign * days, sign * nanos);
    let mut in_window = true;
    let (y0, _, _) = civil::civil_from_days(day0);
    in_window &= y0.abs() <= YEAR_WINDOW;
    let mut day = day0;
    if months != 0 {
        let (d2, y) = civil::shift_day_by_months(day, months);
        day = d2;
        in_window &= y.abs() <= YEAR_WINDOW;
    }
    day += days;
    let (y2, _, _) = civil::civil_from_days(day);
    in_window &= y2.abs() <= YEAR_WINDOW;
    let q = civil::fdiv(nanos, DAY_NS);
    let exact = civil::fmod(nanos, DAY_NS) == 0;
    let lo = day + q;
    let (y3, _, _) = civil::civil_from_days(lo);
    in_window &= y3.abs() <= YEAR_WINDOW;
    // not asserted: rounding direction of a fractional-day interval part
    let mut c = vec![lo];
    if !exact {
        c.push(lo + 1);
    }
    (c, in_window)
}

// ---------------------------------------------------------------- dispatch

#[derive(Clone, Debug)]
pub enum Fam {
    Int(Phys),
    Float(FW),
    Dec(Dec),
    Ts(TimeUnit, Option<String>),
    Dur(TimeUnit),
    IvYM,
    IvDT,
    IvMDN,
    D32,
    D64,
    Other,
}

pub fn fam_of(dt: &DataType) -> Fam {
    use DataType::*;
    match dt {
        Int8 | Int16 | Int32 | Int64 | UInt8 | UInt16 | UInt32 | UInt64 => Fam::Int(phys_of(dt).unwrap()),
        Float16 | Float32 | Float64 => Fam::Float(fw_of(dt).unwrap()),
        Decimal32(_, _) | Decimal64(_, _) | Decimal128(_, _) | Decimal256(_, _) => Fam::Dec(dec_of(dt).unwrap()),
        Timestamp(u, tz) => Fam::Ts(*u, tz.as_ref().map(|s| s.to_string())),
        Duration(u) => Fam::Dur(*u),
        Interval(IntervalUnit::YearMonth) => Fam::IvYM,
        Interval(IntervalUnit::DayTime) => Fam::IvDT,
        Interval(IntervalUnit::MonthDayNano) => Fam::IvMDN,
        Date32 => Fam::D32,
        Date64 => Fam::D64,
        _ => Fam::Other,
    }
}

pub fn fam_name(dt: &DataType) -> &'static str {
    match fam_of(dt) {
        Fam::Int(p) => {
            if p.signed { "int" } else { "uint" }
        }
        Fam::Float(_) => "float",
        Fam::Dec(_) => "decimal",
        Fam::Ts(_, _) => "timestamp",
        Fam::Dur(_) => "duration",
        Fam::IvYM => "interval_ym",
        Fam::IvDT => "interval_dt",
        Fam::IvMDN => "interval_mdn",
        Fam::D32 => "date32",
        Fam::D64 => "date64",
        Fam::Other => "other",
    }
}

/// How a (op, lhs type, rhs type) combination is evaluated.
pub struct Plan {
    /// None: the kernel is expected to reject the combination
    pub out: Option<DataType>,
    /// result precision is asserted (decimals)
    pub prec_asserted: bool,
    /// the call may fail independent of the rows (decimal rescale factor overflow)
    pub op_may_err: bool,
    /// operands are swapped before evaluation (commutative forms)
    pub swapped: bool,
    pub dec: Option<DecPlan>,
    /// extra tag for signatures
    pub tag: &'static str,
}

fn reject() -> Plan {
    Plan { out: None, prec_asserted: false, op_may_err: false, swapped: false, dec: None, tag: "" }
}

fn accept(dt: DataType) -> Plan {
    Plan { out: Some(dt), prec_asserted: true, op_may_err: false, swapped: false, dec: None, tag: "" }
}

fn is_interval(dt: &DataType) -> bool {
    matches!(dt, DataType::Interval(_))
}

pub fn plan(op: Op, lt: &DataType, rt: &DataType) -> Plan {
    use DataType::*;
    let base = op.base();
    let addsub = matches!(base, Base::Add | Base::Sub);
    match (fam_of(lt), fam_of(rt)) {
        (Fam::Int(_), Fam::Int(_)) if lt == rt => accept(lt.clone()),
        (Fam::Float(_), Fam::Float(_)) if lt == rt => accept(lt.clone()),
        (Fam::Dec(l), Fam::Dec(r)) if l.bits == r.bits => {
            let dp = dec_plan(base, l, r);
            match dp.scale {
                None => reject(),
                Some(s) => {
                    let p = dp.precision;
                    let fo = dp.factor_overflow;
                    // a rescale factor 10^k that does not fit the physical type may fail
                    // the whole call up front (independent of the rows)
                    let op_may_err = fo || dp.precision_unsound;
                    Plan {
                        out: Some(dec_type(l.bits, p.unwrap_or(1), s)),
                        prec_asserted: p.is_some(),
                        op_may_err,
                        swapped: false,
                        dec: Some(dp),
                        tag: if fo { "rescale-factor-overflow" } else { "" },
                    }
                }
            }
        }
        (Fam::Ts(u, _), Fam::Ts(u2, _)) if u == u2 && base == Base::Sub => accept(Duration(u)),
        (Fam::Ts(u, _), Fam::Dur(u2)) if u == u2 && addsub => accept(lt.clone()),
        (Fam::Ts(_, _), Fam::IvYM | Fam::IvDT | Fam::IvMDN) if addsub => accept(lt.clone()),
        (Fam::Dur(u), Fam::Dur(u2)) if u == u2 && addsub => accept(lt.clone()),
        (Fam::IvYM, Fam::IvYM) | (Fam::IvDT, Fam::IvDT) | (Fam::IvMDN, Fam::IvMDN) if addsub => accept(lt.clone()),
        (Fam::IvYM | Fam::IvDT | Fam::IvMDN, Fam::Int(_)) if *rt == Int64 && op == Op::Mul => accept(lt.clone()),
        (Fam::IvMDN, Fam::Float(FW::F64)) if op == Op::Mul || op == Op::Div => accept(lt.clone()),
        (Fam::D32, Fam::D32) if base == Base::Sub => accept(Duration(TimeUnit::Second)),
        (Fam::D64, Fam::D64) if base == Base::Sub => accept(Duration(TimeUnit::Millisecond)),
        (Fam::D32 | Fam::D64, Fam::IvYM | Fam::IvDT | Fam::IvMDN) if addsub => accept(lt.clone()),
        // commutative forms
        (Fam::Dur(_), Fam::Ts(_, _)) | (Fam::IvYM | Fam::IvDT | Fam::IvMDN, Fam::Ts(_, _) | Fam::D32 | Fam::D64)
            if base == Base::Add =>
        {
            let mut p = plan(op, rt, lt);
            p.swapped = true;
            p
        }
        (Fam::Int(_), _) if *lt == Int64 && is_interval(rt) && op == Op::Mul => {
            let mut p = plan(op, rt, lt);
            p.swapped = true;
            p
        }
        (Fam::Float(FW::F64), Fam::IvMDN) if op == Op::Mul => {
            let mut p = plan(op, rt, lt);
            p.swapped = true;
            p
        }
        _ => reject(),
    }
}

fn int_fits(bits: u32, v: &BigInt) -> bool {
    Phys { bits, signed: true }.fits(v)
}

fn checked_i(bits: u32, v: BigInt) -> Option<i128> {
    if int_fits(bits, &v) { v.to_i128() } else { None }
}

/// checked field-wise interval arithmetic
fn interval_addsub(l: &Val, r: &Val, sign: i128) -> Cell {
    let f = |bits: u32, a: i128, b: i128| checked_i(bits, BigInt::from(a) + BigInt::from(sign * b));
    match (l, r) {
        (Val::Int(a), Val::Int(b)) => match f(32, *a, *b) {
            Some(x) => Cell::v(Val::Int(x)),
            None => Cell::err(),
        },
        (Val::IntervalDT(d1, m1), Val::IntervalDT(d2, m2)) => {
            match (f(32, *d1 as i128, *d2 as i128), f(32, *m1 as i128, *m2 as i128)) {
                (Some(d), Some(m)) => Cell::v(Val::IntervalDT(d as i32, m as i32)),
                _ => Cell::err(),
            }
        }
        (Val::IntervalMDN(a1, d1, n1), Val::IntervalMDN(a2, d2, n2)) => {
            match (
                f(32, *a1 as i128, *a2 as i128),
                f(32, *d1 as i128, *d2 as i128),
                f(64, *n1 as i128, *n2 as i128),
            ) {
                (Some(a), Some(d), Some(n)) => Cell::v(Val::IntervalMDN(a as i32, d as i32, n as i64)),
                _ => Cell::err(),
            }
        }
        _ => panic!("model: interval operands {l:?} {r:?}"),
    }
}

fn interval_mul_i64(l: &Val, k: i128) -> Cell {
    let f = |bits: u32, a: i128| checked_i(bits, BigInt::from(a) * BigInt::from(k));
    match l {
        Val::Int(a) => match f(32, *a) {
            Some(x) => Cell::v(Val::Int(x)),
            None => Cell::err(),
        },
        Val::IntervalDT(d, m) => match (f(32, *d as i128), f(32, *m as i128)) {
            (Some(d), Some(m)) => Cell::v(Val::IntervalDT(d as i32, m as i32)),
            _ => Cell::err(),
        },
        Val::IntervalMDN(a, d, n) => match (f(32, *a as i128), f(32, *d as i128), f(64, *n as i128)) {
            (Some(a), Some(d), Some(n)) => Cell::v(Val::IntervalMDN(a as i32, d as i32, n as i64)),
            _ => Cell::err(),
        },
        _ => panic!("model: interval operand {l:?}"),
    }
}

/// exact integer value of an f64 if it is integral and within i64
fn integral_i64(x: f64) -> Option<i128> {
    if x.is_finite() && x.fract() == 0.0 && x >= -9.223372036854775808e18 && x < 9.223372036854775808e18 {
        Some(x as i128)
    } else {
        None
    }
}

/// One valid row. `lt`/`rt`/`l`/`r` are in call order; the plan says whether to swap.
pub fn cell(op: Op, lt: &DataType, rt: &DataType, l: &Val, r: &Val, pl: &Plan) -> Cell {
    if pl.swapped {
        let mut p2 = plan(op, rt, lt);
        p2.swapped = false;
        return cell(op, rt, lt, r, l, &p2);
    }
    let out = pl.out.as_ref().expect("model: cell on rejected plan");
    let base = op.base();
    let sign: i128 = if base == Base::Sub { -1 } else { 1 };
    match (fam_of(lt), fam_of(rt)) {
        (Fam::Int(ph), Fam::Int(_)) => int_cell(op, lt, ph, l, r),
        (Fam::Float(w), Fam::Float(_)) => Cell::v(float_op(w, base, l, r)),
        (Fam::Dec(ld), Fam::Dec(rd)) => dec_cell(base, ld, rd, pl.dec.as_ref().unwrap(), out, l, r),
        (Fam::Ts(_, _), Fam::Ts(_, _)) | (Fam::D64, Fam::D64) | (Fam::Dur(_), Fam::Dur(_)) | (Fam::Ts(_, _), Fam::Dur(_)) => {
            // checked i64 add / sub
            let x = val_big(l) + BigInt::from(sign) * val_big(r);
            match checked_i(64, x) {
                Some(v) => Cell::v(Val::Int(v)),
                None => Cell::err(),
            }
        }
        (Fam::D32, Fam::D32) => {
            let x = (val_big(l) - val_big(r)) * BigInt::from(86_400);
            Cell::v(Val::Int(x.to_i128().unwrap()))
        }
        (Fam::Ts(u, tz), Fam::IvYM | Fam::IvDT | Fam::IvMDN) => match tz_offset(tz.as_deref()) {
            // not asserted: rules of named time zones
            None => Cell::free(),
            Some(off) => ts_interval_cell(unit_per_sec(&u), off, l.int().unwrap(), r, sign),
        },
        (Fam::D32, Fam::IvYM | Fam::IvDT | Fam::IvMDN) => {
            let (c, in_window) = date_interval_days(l.int().unwrap(), r, sign);
            let ok: Vec<Val> = c
                .into_iter()
                .filter(|d| int_fits(32, &BigInt::from(*d)))
                .map(Val::Int)
                .collect();
            if ok.is_empty() { Cell::err() } else { Cell::one_of(ok, !in_window) }
        }
        (Fam::D64, Fam::IvYM | Fam::IvDT | Fam::IvMDN) => {
            const DAY_MS: i128 = 86_400_000;
            let v = l.int().unwrap();
            if v % DAY_MS != 0 {
                // not asserted: Date64 values that are not whole days
                return Cell::free();
            }
            let (c, in_window) = date_interval_days(v / DAY_MS, r, sign);
            let ok: Vec<Val> = c
                .into_iter()
                .map(|d| d * DAY_MS)
                .filter(|d| int_fits(64, &BigInt::from(*d)))
                .map(Val::Int)
                .collect();
            if ok.is_empty() { Cell::err() } else { Cell::one_of(ok, !in_window) }
        }
        (Fam::IvYM, Fam::IvYM) | (Fam::IvDT, Fam::IvDT) | (Fam::IvMDN, Fam::IvMDN) => interval_addsub(l, r, sign),
        (Fam::IvYM | Fam::IvDT | Fam::IvMDN, Fam::Int(_)) => interval_mul_i64(l, r.int().unwrap()),
        (Fam::IvMDN, Fam::Float(_)) => {
            let f = match r {
                Val::F64(b) => f64::from_bits(*b),
                o => panic!("model: expected f64 got {o:?}"),
            };
            if base == Base::Div {
                if f == 0.0 {
                    return Cell::err();
                }
                // documented: division is multiplication by the reciprocal
                match integral_i64(1.0 / f) {
                    Some(k) => interval_mul_i64(l, k),
                    // not asserted: interval x non-integral f64 rounding
                    None => Cell::free(),
                }
            } else {
                match integral_i64(f) {
                    Some(k) => interval_mul_i64(l, k),
                    None => Cell::free(),
                }
            }
        }
        (a, b) => panic!("model: no cell rule for {a:?} {b:?}"),
    }
}

// ---------------------------------------------------------------- negation

/// neg / neg_wrapping: None = rejected type
pub fn neg_cell(wrapping: bool, dt: &DataType, v: &Val) -> Option<Cell> {
    Some(match fam_of(dt) {
        Fam::Int(ph) => {
            if !ph.signed && !wrapping {
                return None;
            }
            let x = -val_big(v);
            if ph.fits(&x) {
                Cell::v(big_val(dt, &x))
            } else if wrapping {
                Cell::v(big_val(dt, &ph.wrap(&x)))
            } else {
                Cell::err()
            }
        }
        Fam::Float(_) => Cell::v(float_neg(v)),
        Fam::Dec(d) => {
            let ph = Phys { bits: d.bits, signed: true };
            let x = -val_big(v);
            if ph.fits(&x) { Cell::v(big_val(dt, &x)) } else { Cell::err() }
        }
        Fam::Dur(_) | Fam::IvYM => {
            let ph = phys_of(dt).unwrap();
            let x = -val_big(v);
            if ph.fits(&x) { Cell::v(big_val(dt, &x)) } else { Cell::err() }
        }
        Fam::IvDT | Fam::IvMDN => {
            let zero = match v {
                Val::IntervalDT(_, _) => Val::IntervalDT(0, 0),
                _ => Val::IntervalMDN(0, 0, 0),
            };
            interval_addsub(&zero, v, -1)
        }
        _ => return None,
    })
}

// ---------------------------------------------------------------- self check

pub fn self_check() -> Result<(), String> {
    civil::self_check()?;
    // f16 conversion round trip for every bit pattern, and rounding spot checks
    for b in 0..=u16::MAX {
        let x = f16_to_f64(b);
        let back = f64_to_f16(x);
        let nan = (b & 0x7C00) == 0x7C00 && (b & 0x3FF) != 0;
        if nan {
            if !((back & 0x7C00) == 0x7C00 && (back & 0x3FF) != 0) {
                return Err(format!("f16 nan {b:#x} -> {back:#x}"));
            }
        } else if back != b {
            return Err(format!("f16 roundtrip {b:#x} -> {x} -> {back:#x}"));
        }
    }
    let checks: [(f64, u16); 8] = [
        (65504.0, 0x7BFF),
        (65519.99, 0x7BFF),
        (65520.0, 0x7C00),
        (2049.0, 0x6800),       // tie -> even (2048)
        (2051.0, 0x6802),       // tie -> even (2052)
        (5.960464477539063e-8, 0x0001),
        (2.9802322387695312e-8, 0x0000), // half of min subnormal: tie -> even (0)
        (2.98023223876953125e-8 * 1.0000001, 0x0001),
    ];
    for (x, want) in checks {
        let got = f64_to_f16(x);
        if got != want {
            return Err(format!("f64_to_f16({x}) = {got:#x}, want {want:#x}"));
        }
    }
    // wrap
    let p = Phys { bits: 8, signed: true };
    if p.wrap(&BigInt::from(128)) != BigInt::from(-128) || p.wrap(&BigInt::from(-129)) != BigInt::from(127) {
        return Err("wrap i8".into());
    }
    let p = Phys { bits: 8, signed: false };
    if p.wrap(&BigInt::from(-1)) != BigInt::from(255) || p.wrap(&BigInt::from(256)) != BigInt::zero() {
        return Err("wrap u8".into());
    }
    // i256 conversion
    for v in [i256::MIN, i256::MAX, i256::ZERO, i256::MINUS_ONE, i256::from_i128(i128::MIN)] {
        if i256_from_big(&big_i256(v)) != Some(v) {
            return Err(format!("i256 big roundtrip {v}"));
        }
    }
    if i256_from_big(&(big_i256(i256::MAX) + 1)).is_some() || i256_from_big(&(big_i256(i256::MIN) - 1)).is_some() {
        return Err("i256 range".into());
    }
    Ok(())
}
