//! C16 support: shared per-case monitor state (global event sequence, event
//! log, harness-owned regions with release-counting owners, recording memory
//! pool, C-Data-Interface release-callback wrappers).
//!
//! Everything here is the *monitor*; no arrow-rs behaviour is modelled from
//! its source. All cross-thread ordering comes from one global atomic
//! sequence number taken at every monitored event.

use arrow_array::ffi::{FFI_ArrowArray, FFI_ArrowSchema};
use arrow_array::ffi_stream::FFI_ArrowArrayStream;
use arrow_buffer::{MemoryPool, MemoryReservation};
use std::alloc::Layout;
use std::cell::Cell;
use std::collections::BTreeMap;
use std::ffi::c_void;
use std::os::raw::{c_char, c_int};
use std::sync::atomic::{AtomicU32, AtomicU64, Ordering};
use std::sync::{Arc, Mutex, MutexGuard};

// ---------------------------------------------------------------------------
// global sequence + per-thread "current operation" marker
// ---------------------------------------------------------------------------

static SEQ: AtomicU64 = AtomicU64::new(1);

/// Oracle self-test switch (env C16_SANITY=n): the *harness* misbehaves on purpose
/// (never arrow-rs) so that one can see each oracle fire. 0 = off.
pub static SANITY: AtomicU32 = AtomicU32::new(0);
pub fn sanity() -> u32 {
    SANITY.load(Ordering::Relaxed)
}

/// one global sequence number per monitored event
pub fn tick() -> u64 {
    SEQ.fetch_add(1, Ordering::SeqCst)
}

thread_local! {
    /// (thread id inside the case, op class currently executing, op serial)
    static CUR: Cell<(u8, &'static str, u32)> = const { Cell::new((0, "idle", 0)) };
}

pub fn set_cur(tid: u8, oc: &'static str, serial: u32) {
    CUR.with(|c| c.set((tid, oc, serial)));
}
pub fn cur() -> (u8, &'static str, u32) {
    CUR.with(|c| c.get())
}

pub fn lock<T>(m: &Mutex<T>) -> MutexGuard<'_, T> {
    m.lock().unwrap_or_else(|e| e.into_inner())
}

pub struct SendPtr(pub *mut u8);
unsafe impl Send for SendPtr {}
unsafe impl Sync for SendPtr {}

// ---------------------------------------------------------------------------
// events
// ---------------------------------------------------------------------------

pub enum Ev {
    Birth {
        h: u32,
        seq: u64,
        kind: &'static str,
        roots: Vec<u32>,
        imports: Vec<u32>,
    },
    Death {
        h: u32,
        seq: u64,
    },
    OwnerRel {
        rid: u32,
        seq: u64,
        oc: &'static str,
    },
    Op {
        t: u8,
        seq: u64,
    },
}

pub struct Fault {
    pub sig: String,
    pub detail: String,
}

// ---------------------------------------------------------------------------
// harness-owned regions
// ---------------------------------------------------------------------------

pub struct Region {
    pub ptr: SendPtr,
    pub base: usize,
    pub len: usize,
    pub layout: Layout,
    /// content at creation; nobody may ever write to a custom region
    pub snap: Vec<u8>,
    pub releases: u32,
    pub freed: bool,
    /// "custom" (Buffer::from_custom_allocation) or "bytes" (bytes::Bytes::from_owner)
    pub kind: &'static str,
}

pub struct FfiRec {
    /// "array" | "schema" | "stream"
    pub kind: &'static str,
    /// "top" | "child" | "dictionary"
    pub role: &'static str,
    pub releases: u32,
    /// the producer's release callback returned without marking the struct released
    pub unmarked: bool,
    pub rel_seq: u64,
}

pub struct Shared {
    pub ev: Mutex<Vec<Ev>>,
    pub regions: Mutex<Vec<Region>>,
    pub pool: RecPool,
    pub next_h: AtomicU32,
    pub ffi: Mutex<Vec<FfiRec>>,
    /// top-level exported array struct id -> address ranges of its non-empty buffers
    pub exports: Mutex<BTreeMap<u32, Vec<(usize, usize)>>>,
    pub faults: Mutex<Vec<Fault>>,
    pub inconclusive: Mutex<Vec<String>>,
    /// observation outside the property: imports of empty (sub)arrays failing validate_full
    pub obs_invalid_empty: Mutex<u64>,
    /// self-test 2 only: real owners that the harness will release too early
    pub stash: Mutex<Vec<Owner>>,
}

impl Shared {
    pub fn new() -> Arc<Shared> {
        Arc::new(Shared {
            ev: Mutex::new(Vec::new()),
            regions: Mutex::new(Vec::new()),
            pool: RecPool::new(),
            next_h: AtomicU32::new(0),
            ffi: Mutex::new(Vec::new()),
            exports: Mutex::new(BTreeMap::new()),
            faults: Mutex::new(Vec::new()),
            inconclusive: Mutex::new(Vec::new()),
            obs_invalid_empty: Mutex::new(0),
            stash: Mutex::new(Vec::new()),
        })
    }
    pub fn push(&self, e: Ev) {
        lock(&self.ev).push(e);
    }
    pub fn fault(&self, sig: String, detail: String) {
        let mut f = lock(&self.faults);
        if f.len() < 64 {
            f.push(Fault { sig, detail });
        }
    }
    pub fn inconclusive(&self, why: String) {
        lock(&self.inconclusive).push(why);
    }

    /// Allocate a harness-owned region of `len` bytes (64-byte aligned base)
    /// with the given content. Returns (region id, base pointer).
    pub fn new_region(&self, content: &[u8], kind: &'static str) -> (u32, *mut u8) {
        let len = content.len().max(1);
        let layout = Layout::from_size_align(len, 64).expect("model: region layout");
        // SAFETY: len >= 1
        let p = unsafe { std::alloc::alloc(layout) };
        assert!(!p.is_null(), "model: region allocation failed");
        unsafe {
            std::ptr::write_bytes(p, 0xA5, len);
            std::ptr::copy_nonoverlapping(content.as_ptr(), p, content.len());
        }
        let snap = unsafe { std::slice::from_raw_parts(p, len) }.to_vec();
        let mut regs = lock(&self.regions);
        let rid = regs.len() as u32;
        regs.push(Region {
            ptr: SendPtr(p),
            base: p as usize,
            len,
            layout,
            snap,
            releases: 0,
            freed: false,
            kind,
        });
        (rid, p)
    }

    /// regions whose address range contains `addr`
    pub fn region_of(&self, addr: usize) -> Option<u32> {
        let regs = lock(&self.regions);
        for (i, r) in regs.iter().enumerate() {
            if !r.freed && addr >= r.base && addr < r.base + r.len {
                return Some(i as u32);
            }
        }
        None
    }

    /// Compare every not-yet-released region with its creation content.
    pub fn check_regions(&self) -> Option<String> {
        let regs = lock(&self.regions);
        for (i, r) in regs.iter().enumerate() {
            if r.releases == 0 && !r.freed {
                let now = unsafe { std::slice::from_raw_parts(r.ptr.0 as *const u8, r.len) };
                if now != r.snap.as_slice() {
                    let at = now.iter().zip(r.snap.iter()).position(|(a, b)| a != b).unwrap_or(0);
                    return Some(format!(
                        "harness-owned {} region #{i} (len {}) changed at byte {at}: was {:#04x} now {:#04x}",
                        r.kind, r.len, r.snap[at], now[at]
                    ));
                }
            }
        }
        None
    }

    /// Free the memory of all regions (end of case). Natively released
    /// regions are kept (scribbled) until here so that a premature release is
    /// observable as a content change instead of a use-after-free.
    pub fn free_regions(&self) {
        let mut regs = lock(&self.regions);
        for r in regs.iter_mut() {
            if !r.freed {
                unsafe { std::alloc::dealloc(r.ptr.0, r.layout) };
                r.freed = true;
            }
        }
    }
}

/// Owner handed to arrow-rs (`Arc<dyn Allocation>` or the owner of a
/// `bytes::Bytes`). Dropping it *is* the release of the region.
pub struct Owner {
    pub sh: Arc<Shared>,
    pub rid: u32,
}

impl std::panic::RefUnwindSafe for Owner {}
impl std::panic::UnwindSafe for Owner {}

impl Drop for Owner {
    fn drop(&mut self) {
        let seq = tick();
        let (_, oc, _) = cur();
        {
            let mut regs = lock(&self.sh.regions);
            let r = &mut regs[self.rid as usize];
            r.releases += 1;
            if r.releases == 1 && !r.freed {
                // scribble: a view that outlives its owner sees 0xDD
                unsafe { std::ptr::write_bytes(r.ptr.0, 0xDD, r.len) };
                #[cfg(any(miri, vsan))]
                {
                    // under Miri / sanitizers a premature release must be a hard fault
                    unsafe { std::alloc::dealloc(r.ptr.0, r.layout) };
                    r.freed = true;
                }
            }
        }
        self.sh.push(Ev::OwnerRel { rid: self.rid, seq, oc });
    }
}

/// Owner for `bytes::Bytes::from_owner`.
pub struct BytesOwner {
    pub owner: Owner,
    pub ptr: SendPtr,
    pub len: usize,
}
impl AsRef<[u8]> for BytesOwner {
    fn as_ref(&self) -> &[u8] {
        unsafe { std::slice::from_raw_parts(self.ptr.0 as *const u8, self.len) }
    }
}

// ---------------------------------------------------------------------------
// recording memory pool
// ---------------------------------------------------------------------------

#[derive(Clone)]
pub struct ResInfo {
    pub size: usize,
    pub claim_size: usize,
    pub resized: bool,
    pub dropped: u32,
    /// (thread, op serial) that created it
    pub tid: u8,
    pub serial: u32,
}

pub struct PoolSt {
    pub res: Vec<ResInfo>,
    pub used: usize,
    pub events: u64,
}

pub struct PoolInner {
    pub st: Mutex<PoolSt>,
}

pub struct RecPool(pub Arc<PoolInner>);

impl std::fmt::Debug for RecPool {
    fn fmt(&self, f: &mut std::fmt::Formatter<'_>) -> std::fmt::Result {
        write!(f, "RecPool")
    }
}

struct Res {
    id: usize,
    inner: Arc<PoolInner>,
}

impl std::fmt::Debug for Res {
    fn fmt(&self, f: &mut std::fmt::Formatter<'_>) -> std::fmt::Result {
        write!(f, "Res#{}", self.id)
    }
}

struct KeepPtr(*const u8);
unsafe impl Send for KeepPtr {}

/// Addresses of all live reservation boxes. A reservation that arrow-rs
/// forgets (never drops) is reported by *this* oracle with an exact
/// signature; keeping it reachable from a static stops the leak checkers of
/// Miri / LSan from aborting the whole run on that same, already reported,
/// defect (so that they stay useful for everything else).
static KEEP: Mutex<Vec<KeepPtr>> = Mutex::new(Vec::new());

impl RecPool {
    pub fn new() -> RecPool {
        RecPool(Arc::new(PoolInner {
            st: Mutex::new(PoolSt {
                res: Vec::new(),
                used: 0,
                events: 0,
            }),
        }))
    }
    pub fn snapshot(&self) -> Vec<ResInfo> {
        lock(&self.0.st).res.clone()
    }
    pub fn count(&self) -> usize {
        lock(&self.0.st).res.len()
    }
    pub fn events(&self) -> u64 {
        lock(&self.0.st).events
    }
}

impl MemoryPool for RecPool {
    fn reserve(&self, size: usize) -> Box<dyn MemoryReservation> {
        tick();
        let (tid, _, serial) = cur();
        let id = {
            let mut st = lock(&self.0.st);
            st.res.push(ResInfo {
                size,
                claim_size: size,
                resized: false,
                dropped: 0,
                tid,
                serial,
            });
            st.used += size;
            st.events += 1;
            st.res.len() - 1
        };
        let b = Box::new(Res {
            id,
            inner: self.0.clone(),
        });
        let p = (&*b) as *const Res as *const u8;
        lock(&KEEP).push(KeepPtr(p));
        b
    }
    fn available(&self) -> isize {
        isize::MAX - self.used() as isize
    }
    fn used(&self) -> usize {
        lock(&self.0.st).used
    }
    fn capacity(&self) -> usize {
        usize::MAX
    }
}

impl MemoryReservation for Res {
    fn size(&self) -> usize {
        lock(&self.inner.st).res[self.id].size
    }
    fn resize(&mut self, new_size: usize) {
        tick();
        let mut st = lock(&self.inner.st);
        let old = st.res[self.id].size;
        st.used = (st.used + new_size).saturating_sub(old);
        st.res[self.id].size = new_size;
        st.res[self.id].resized = true;
        st.events += 1;
    }
}

impl Drop for Res {
    fn drop(&mut self) {
        tick();
        {
            let mut st = lock(&self.inner.st);
            st.res[self.id].dropped += 1;
            if st.res[self.id].dropped == 1 {
                let s = st.res[self.id].size;
                st.used = st.used.saturating_sub(s);
            }
            st.events += 1;
        }
        let me = self as *const Res as *const u8 as usize;
        let mut k = lock(&KEEP);
        if let Some(i) = k.iter().position(|p| p.0 as usize == me) {
            k.swap_remove(i);
        }
    }
}

// ---------------------------------------------------------------------------
// C Data Interface mirrors (the structs are #[repr(C)] with private fields;
// a consumer written in C sees exactly these layouts)
// ---------------------------------------------------------------------------

type RelA = Option<unsafe extern "C" fn(*mut FFI_ArrowArray)>;
type RelS = Option<unsafe extern "C" fn(*mut FFI_ArrowSchema)>;

#[repr(C)]
pub struct CArr {
    pub length: i64,
    pub null_count: i64,
    pub offset: i64,
    pub n_buffers: i64,
    pub n_children: i64,
    pub buffers: *mut *const c_void,
    pub children: *mut *mut FFI_ArrowArray,
    pub dictionary: *mut FFI_ArrowArray,
    pub release: RelA,
    pub private_data: *mut c_void,
}

#[repr(C)]
pub struct CSch {
    pub format: *const c_char,
    pub name: *const c_char,
    pub metadata: *const c_char,
    pub flags: i64,
    pub n_children: i64,
    pub children: *mut *mut FFI_ArrowSchema,
    pub dictionary: *mut FFI_ArrowSchema,
    pub release: RelS,
    pub private_data: *mut c_void,
}

type GetSchema = Option<unsafe extern "C" fn(*mut FFI_ArrowArrayStream, *mut FFI_ArrowSchema) -> c_int>;
type GetNext = Option<unsafe extern "C" fn(*mut FFI_ArrowArrayStream, *mut FFI_ArrowArray) -> c_int>;
type GetErr = Option<unsafe extern "C" fn(*mut FFI_ArrowArrayStream) -> *const c_char>;
type RelStream = Option<unsafe extern "C" fn(*mut FFI_ArrowArrayStream)>;

#[repr(C)]
pub struct CStream {
    pub get_schema: GetSchema,
    pub get_next: GetNext,
    pub get_last_error: GetErr,
    pub release: RelStream,
    pub private_data: *mut c_void,
}

const _: () = assert!(std::mem::size_of::<CArr>() == std::mem::size_of::<FFI_ArrowArray>());
const _: () = assert!(std::mem::size_of::<CSch>() == std::mem::size_of::<FFI_ArrowSchema>());
const _: () = assert!(std::mem::size_of::<CStream>() == std::mem::size_of::<FFI_ArrowArrayStream>());

struct WrapA {
    sh: Arc<Shared>,
    sid: u32,
    orig_release: RelA,
    orig_pd: *mut c_void,
}
struct WrapS {
    sh: Arc<Shared>,
    sid: u32,
    orig_release: RelS,
    orig_pd: *mut c_void,
}

fn new_rec(sh: &Shared, kind: &'static str, role: &'static str) -> u32 {
    let mut f = lock(&sh.ffi);
    f.push(FfiRec {
        kind,
        role,
        releases: 0,
        unmarked: false,
        rel_seq: 0,
    });
    (f.len() - 1) as u32
}

fn note_release(sh: &Shared, sid: u32, seq: u64) {
    let mut f = lock(&sh.ffi);
    let r = &mut f[sid as usize];
    r.releases += 1;
    if r.releases == 1 {
        r.rel_seq = seq;
    }
}

/// Wrap the release callback of an exported array struct and, recursively,
/// of its children and dictionary (as a C consumer/producer shim would).
/// Returns the id of the record for `a`.
///
/// # Safety
/// `a` must point to a live, initialised FFI_ArrowArray.
pub unsafe fn wrap_arr(a: *mut FFI_ArrowArray, sh: &Arc<Shared>, role: &'static str) -> Option<u32> {
    unsafe {
        let m = a as *mut CArr;
        if (*m).release.is_none() {
            return None;
        }
        let n = (*m).n_children.max(0) as usize;
        if !(*m).children.is_null() {
            for i in 0..n {
                let c = *(*m).children.add(i);
                if !c.is_null() {
                    wrap_arr(c, sh, "child");
                }
            }
        }
        if !(*m).dictionary.is_null() {
            wrap_arr((*m).dictionary, sh, "dictionary");
        }
        let sid = new_rec(sh, "array", role);
        let w = Box::new(WrapA {
            sh: sh.clone(),
            sid,
            orig_release: (*m).release,
            orig_pd: (*m).private_data,
        });
        (*m).private_data = Box::into_raw(w) as *mut c_void;
        (*m).release = Some(wrapped_release_arr);
        Some(sid)
    }
}

unsafe extern "C" fn wrapped_release_arr(a: *mut FFI_ArrowArray) {
    unsafe {
        let m = a as *mut CArr;
        let w = Box::from_raw((*m).private_data as *mut WrapA);
        let seq = tick();
        note_release(&w.sh, w.sid, seq);
        (*m).private_data = w.orig_pd;
        (*m).release = w.orig_release;
        if let Some(f) = w.orig_release {
            f(a);
        }
        if (*m).release.is_some() {
            lock(&w.sh.ffi)[w.sid as usize].unmarked = true;
            (*m).release = None;
        }
    }
}

/// # Safety
/// `s` must point to a live, initialised FFI_ArrowSchema.
pub unsafe fn wrap_sch(s: *mut FFI_ArrowSchema, sh: &Arc<Shared>, role: &'static str) -> Option<u32> {
    unsafe {
        let m = s as *mut CSch;
        if (*m).release.is_none() {
            return None;
        }
        let n = (*m).n_children.max(0) as usize;
        if !(*m).children.is_null() {
            for i in 0..n {
                let c = *(*m).children.add(i);
                if !c.is_null() {
                    wrap_sch(c, sh, "child");
                }
            }
        }
        if !(*m).dictionary.is_null() {
            wrap_sch((*m).dictionary, sh, "dictionary");
        }
        let sid = new_rec(sh, "schema", role);
        let w = Box::new(WrapS {
            sh: sh.clone(),
            sid,
            orig_release: (*m).release,
            orig_pd: (*m).private_data,
        });
        (*m).private_data = Box::into_raw(w) as *mut c_void;
        (*m).release = Some(wrapped_release_sch);
        Some(sid)
    }
}

unsafe extern "C" fn wrapped_release_sch(s: *mut FFI_ArrowSchema) {
    unsafe {
        let m = s as *mut CSch;
        let w = Box::from_raw((*m).private_data as *mut WrapS);
        let seq = tick();
        note_release(&w.sh, w.sid, seq);
        (*m).private_data = w.orig_pd;
        (*m).release = w.orig_release;
        if let Some(f) = w.orig_release {
            f(s);
        }
        if (*m).release.is_some() {
            lock(&w.sh.ffi)[w.sid as usize].unmarked = true;
            (*m).release = None;
        }
    }
}

/// Address ranges of the non-empty buffers of an exported struct, read
/// through the C pointers; `lens` gives, per struct in pre-order, the byte
/// lengths of its buffers as the producer side knows them.
///
/// # Safety
/// `a` must point to a live exported FFI_ArrowArray matching `shape`.
pub unsafe fn c_views(a: *const FFI_ArrowArray, shape: &ExportShape, out: &mut Vec<(*const u8, usize)>) {
    unsafe {
        let m = a as *const CArr;
        if (*m).release.is_none() {
            return;
        }
        if (*m).n_buffers as usize == shape.lens.len() && !(*m).buffers.is_null() {
            for (i, l) in shape.lens.iter().enumerate() {
                let p = *(*m).buffers.add(i) as *const u8;
                if !p.is_null() && *l > 0 {
                    out.push((p, *l));
                }
            }
        }
        let n = (*m).n_children.max(0) as usize;
        if n == shape.children.len() && !(*m).children.is_null() {
            for i in 0..n {
                let c = *(*m).children.add(i);
                if !c.is_null() {
                    c_views(c, &shape.children[i], out);
                }
            }
        }
        if let Some(d) = &shape.dictionary {
            if !(*m).dictionary.is_null() {
                c_views((*m).dictionary, d, out);
            }
        }
    }
}

/// Producer-side knowledge of an exported array (buffer lengths in C order).
pub struct ExportShape {
    pub lens: Vec<usize>,
    pub children: Vec<ExportShape>,
    pub dictionary: Option<Box<ExportShape>>,
}

// ---------------------------------------------------------------------------
// stream shim: a foreign producer that forwards to the stream exported by
// arrow-rs and wraps the release callback of everything it hands out
// ---------------------------------------------------------------------------

struct StreamWrap {
    sh: Arc<Shared>,
    sid: u32,
    inner: FFI_ArrowArrayStream,
    /// ids of the top-level array structs handed out by get_next, in order
    handed: Arc<Mutex<Vec<u32>>>,
}

unsafe extern "C" fn shim_get_schema(s: *mut FFI_ArrowArrayStream, out: *mut FFI_ArrowSchema) -> c_int {
    unsafe {
        let w = &mut *((*(s as *mut CStream)).private_data as *mut StreamWrap);
        let inner = &mut w.inner as *mut FFI_ArrowArrayStream;
        let r = match (*(inner as *mut CStream)).get_schema {
            Some(f) => f(inner, out),
            None => 22,
        };
        if r == 0 {
            wrap_sch(out, &w.sh, "top");
        }
        r
    }
}

unsafe extern "C" fn shim_get_next(s: *mut FFI_ArrowArrayStream, out: *mut FFI_ArrowArray) -> c_int {
    unsafe {
        let w = &mut *((*(s as *mut CStream)).private_data as *mut StreamWrap);
        let inner = &mut w.inner as *mut FFI_ArrowArrayStream;
        let r = match (*(inner as *mut CStream)).get_next {
            Some(f) => f(inner, out),
            None => 22,
        };
        if r == 0 {
            if let Some(sid) = wrap_arr(out, &w.sh, "top") {
                lock(&w.handed).push(sid);
            }
        }
        r
    }
}

unsafe extern "C" fn shim_get_last_error(s: *mut FFI_ArrowArrayStream) -> *const c_char {
    unsafe {
        let w = &mut *((*(s as *mut CStream)).private_data as *mut StreamWrap);
        let inner = &mut w.inner as *mut FFI_ArrowArrayStream;
        match (*(inner as *mut CStream)).get_last_error {
            Some(f) => f(inner),
            None => std::ptr::null(),
        }
    }
}

unsafe extern "C" fn shim_release(s: *mut FFI_ArrowArrayStream) {
    unsafe {
        let m = s as *mut CStream;
        let w = Box::from_raw((*m).private_data as *mut StreamWrap);
        let seq = tick();
        note_release(&w.sh, w.sid, seq);
        (*m).get_schema = None;
        (*m).get_next = None;
        (*m).get_last_error = None;
        (*m).release = None;
        (*m).private_data = std::ptr::null_mut();
        drop(w); // drops the inner stream (its own release runs here)
    }
}

/// Wrap a stream exported by arrow-rs into the forwarding shim. Returns the
/// shim, its record id and the list that will receive the ids of the array
/// structs handed out.
pub fn wrap_stream(inner: FFI_ArrowArrayStream, sh: &Arc<Shared>) -> (FFI_ArrowArrayStream, u32, Arc<Mutex<Vec<u32>>>) {
    let sid = new_rec(sh, "stream", "top");
    let handed = Arc::new(Mutex::new(Vec::new()));
    let w = Box::new(StreamWrap {
        sh: sh.clone(),
        sid,
        inner,
        handed: handed.clone(),
    });
    let mut out = FFI_ArrowArrayStream::empty();
    unsafe {
        let m = &mut out as *mut FFI_ArrowArrayStream as *mut CStream;
        (*m).get_schema = Some(shim_get_schema);
        (*m).get_next = Some(shim_get_next);
        (*m).get_last_error = Some(shim_get_last_error);
        (*m).release = Some(shim_release);
        (*m).private_data = Box::into_raw(w) as *mut c_void;
    }
    (out, sid, handed)
}
