//! C19: bit-packed mask primitives are exact at every bit offset and length.
//!
//! Oracle: the same operation on `Vec<bool>`; destination bits outside the
//! addressed range unchanged (destinations pre-filled with random bits and
//! fully compared); results independent of source bits outside the addressed
//! range (every case is run under two different random surroundings and
//! compared against a model that only sees the addressed bits).
//!
//! not asserted: content of *padding* bits of freshly allocated results
//! (documented as unspecified); which 64-bit words the closures are called on.

use crate::mon::{Ctx, guard};
use crate::rng::Rng;
use arrow_buffer::bit_chunk_iterator::{BitChunks, UnalignedBitChunk};
use arrow_buffer::bit_iterator::{BitIndexIterator, BitIndexU32Iterator, BitIterator, BitSliceIterator};
use arrow_buffer::bit_util;
use arrow_buffer::buffer::{
    bitwise_bin_op_helper, bitwise_quaternary_op_helper, bitwise_unary_op_helper, buffer_bin_and,
    buffer_bin_and_not, buffer_bin_or, buffer_bin_xor, buffer_unary_not,
};
use arrow_buffer::{
    BooleanBuffer, BooleanBufferBuilder, Buffer, MutableBuffer, NullBuffer, NullBufferBuilder,
};

const CONTENTS: [&str; 7] = ["zeros", "ones", "alt", "first", "last", "random", "random2"];

/// Bits `[0, total)` with the addressed window `[off, off+len)` filled per
/// `content` and everything else random ("surroundings").
fn make_bits(rng: &mut Rng, total: usize, off: usize, len: usize, content: &str) -> Vec<bool> {
    let mut v: Vec<bool> = (0..total).map(|_| rng.bool()).collect();
    for i in 0..len {
        v[off + i] = match content {
            "zeros" => false,
            "ones" => true,
            "alt" => i % 2 == 0,
            "first" => i == 0,
            "last" => i + 1 == len,
            _ => rng.bool(),
        };
    }
    v
}

fn pack(bits: &[bool]) -> Vec<u8> {
    let mut out = vec![0u8; bits.len().div_ceil(8)];
    for (i, b) in bits.iter().enumerate() {
        if *b {
            out[i / 8] |= 1 << (i % 8);
        }
    }
    out
}

fn unpack(bytes: &[u8], off: usize, len: usize) -> Vec<bool> {
    (0..len)
        .map(|i| bytes[(off + i) / 8] & (1 << ((off + i) % 8)) != 0)
        .collect()
}

/// A `Buffer` holding `bytes` whose data pointer is misaligned by `mis` bytes
/// relative to a 64-byte boundary.
fn buffer_mis(bytes: &[u8], mis: usize) -> Buffer {
    let mut mb = MutableBuffer::new(bytes.len() + mis);
    mb.extend_from_slice(&vec![0xA5u8; mis]);
    mb.extend_from_slice(bytes);
    let b: Buffer = mb.into();
    b.slice_with_length(mis, bytes.len())
}

fn bb_vec(b: &BooleanBuffer) -> Vec<bool> {
    (0..b.len()).map(|i| b.value(i)).collect()
}

struct Fail {
    op: &'static str,
    msg: String,
}

macro_rules! ck {
    ($op:expr, $cond:expr, $($arg:tt)*) => {
        if !($cond) {
            return Err(Fail { op: $op, msg: format!($($arg)*) });
        }
    };
}

type UnFn = fn(u64) -> u64;
type BinFn = fn(u64, u64) -> u64;
const UN_OPS: [(&str, UnFn, fn(bool) -> bool); 4] = [
    ("not", |a| !a, |a| !a),
    ("id", |a| a, |a| a),
    ("zero", |_| 0, |_| false),
    ("ones", |_| u64::MAX, |_| true),
];
const BIN_OPS: [(&str, BinFn, fn(bool, bool) -> bool); 7] = [
    ("and", |a, b| a & b, |a, b| a & b),
    ("or", |a, b| a | b, |a, b| a | b),
    ("xor", |a, b| a ^ b, |a, b| a ^ b),
    ("andnot", |a, b| a & !b, |a, b| a & !b),
    ("nor", |a, b| !(a | b), |a, b| !(a | b)),
    ("left", |a, _| a, |a, _| a),
    ("right", |_, b| b, |_, b| b),
];

/// All single-source operations on the window `[off, off+len)` of `bits`.
fn single_source(rng: &mut Rng, bits: &[bool], off: usize, len: usize, mis: usize) -> Result<u64, Fail> {
    let bytes = pack(bits);
    let want: Vec<bool> = bits[off..off + len].to_vec();
    let buf = buffer_mis(&bytes, mis);
    let src: &[u8] = buf.as_slice();
    let mut n = 0u64;

    // from_bits / new / slice / value / iter
    let fb = BooleanBuffer::from_bits(src, off, len);
    ck!("from_bits", bb_vec(&fb) == want, "bits differ");
    let bb = BooleanBuffer::new(buf.clone(), off, len);
    ck!("BooleanBuffer::new", bb_vec(&bb) == want, "bits differ");
    ck!("BooleanBuffer::eq", bb == fb && fb == bb, "equal windows compare unequal");
    ck!("iter", bb.iter().collect::<Vec<_>>() == want, "iter differs");
    ck!("into_iter", (&bb).into_iter().collect::<Vec<_>>() == want, "IntoIterator differs");
    ck!("iter.rev", bb.iter().rev().collect::<Vec<_>>() == want.iter().rev().cloned().collect::<Vec<_>>(), "reverse iter differs");
    ck!("iter.len", bb.iter().len() == len, "ExactSizeIterator len");
    n += 7;
    // inequality: flip one bit inside the window
    if len > 0 {
        let k = rng.below(len);
        let mut b2 = bits.to_vec();
        b2[off + k] = !b2[off + k];
        let other = BooleanBuffer::new(Buffer::from_vec(pack(&b2)), off, len);
        ck!("BooleanBuffer::ne", bb != other, "windows differing in bit {k} compare equal");
        // and equal when only bits outside differ
        let mut b3 = bits.to_vec();
        for (i, b) in b3.iter_mut().enumerate() {
            if i < off || i >= off + len {
                *b = !*b;
            }
        }
        let other = BooleanBuffer::new(Buffer::from_vec(pack(&b3)), off, len);
        ck!("BooleanBuffer::eq", bb == other, "windows differing only outside the range compare unequal");
        n += 2;
    }
    // sub-slices
    for _ in 0..3 {
        let o = rng.below(len + 1);
        let l = rng.below(len - o + 1);
        let s = bb.slice(o, l);
        ck!("slice", bb_vec(&s) == want[o..o + l], "slice({o},{l}) differs");
        ck!("slice.count", s.count_set_bits() == want[o..o + l].iter().filter(|b| **b).count(), "slice({o},{l}).count_set_bits");
        let sl = s.sliced();
        ck!("sliced", unpack(sl.as_slice(), 0, l) == want[o..o + l], "sliced() of slice({o},{l}) differs");
        n += 3;
    }
    // counting
    let ones = want.iter().filter(|b| **b).count();
    ck!("count_set_bits", bb.count_set_bits() == ones, "got {} want {ones}", bb.count_set_bits());
    ck!("Buffer::count_set_bits_offset", buf.count_set_bits_offset(off, len) == ones, "got {} want {ones}", buf.count_set_bits_offset(off, len));
    ck!("has_true", bb.has_true() == (ones > 0), "got {}", bb.has_true());
    ck!("has_false", bb.has_false() == (ones < len), "got {}", bb.has_false());
    n += 4;
    // find_nth_set_bit_position: one past the n-th set bit at/after start, or len
    for _ in 0..4 {
        let start = rng.below(len + 1);
        let nth = rng.below(ones + 3);
        let got = bb.find_nth_set_bit_position(start, nth);
        let avail = want[start..].iter().filter(|b| **b).count();
        if nth == 0 {
            ck!("find_nth_set_bit_position", got == start, "n=0 must return start {start}, got {got}");
        } else if avail < nth {
            ck!("find_nth_set_bit_position", got == len, "start {start} n {nth}: only {avail} set bits, want len {len} got {got}");
        } else {
            let ok = got > start
                && got <= len
                && want[got - 1]
                && want[start..got].iter().filter(|b| **b).count() == nth;
            ck!("find_nth_set_bit_position", ok, "start {start} n {nth}: got {got}, not one past the n-th set bit");
        }
        n += 1;
    }
    // set indices / slices
    let idx: Vec<usize> = want.iter().enumerate().filter(|(_, b)| **b).map(|(i, _)| i).collect();
    ck!("set_indices", bb.set_indices().collect::<Vec<_>>() == idx, "differs");
    ck!("set_indices_u32", bb.set_indices_u32().map(|x| x as usize).collect::<Vec<_>>() == idx, "differs");
    ck!("BitIndexIterator", BitIndexIterator::new(src, off, len).collect::<Vec<_>>() == idx, "differs");
    ck!("BitIndexU32Iterator", BitIndexU32Iterator::new(src, off, len).map(|x| x as usize).collect::<Vec<_>>() == idx, "differs");
    let mut runs: Vec<(usize, usize)> = Vec::new();
    let mut i = 0;
    while i < len {
        if want[i] {
            let s = i;
            while i < len && want[i] {
                i += 1;
            }
            runs.push((s, i));
        } else {
            i += 1;
        }
    }
    ck!("set_slices", bb.set_slices().collect::<Vec<_>>() == runs, "got {:?} want {runs:?}", bb.set_slices().collect::<Vec<_>>());
    ck!("BitSliceIterator", BitSliceIterator::new(src, off, len).collect::<Vec<_>>() == runs, "differs");
    n += 6;
    // BitIterator: mixed next / next_back / nth / nth_back against a deque model
    {
        let mut it = BitIterator::new(src, off, len);
        let mut lo = 0usize;
        let mut hi = len;
        for _ in 0..(len + 4).min(40) {
            match rng.below(4) {
                0 => {
                    let g = it.next();
                    let w = if lo < hi { lo += 1; Some(want[lo - 1]) } else { None };
                    ck!("BitIterator::next", g == w, "got {g:?} want {w:?}");
                }
                1 => {
                    let g = it.next_back();
                    let w = if lo < hi { hi -= 1; Some(want[hi]) } else { None };
                    ck!("BitIterator::next_back", g == w, "got {g:?} want {w:?}");
                }
                2 => {
                    let k = rng.below(5);
                    let g = it.nth(k);
                    let w = if lo + k < hi { lo += k + 1; Some(want[lo - 1]) } else { lo = hi; None };
                    ck!("BitIterator::nth", g == w, "nth({k}) got {g:?} want {w:?}");
                }
                _ => {
                    let k = rng.below(5);
                    let g = it.nth_back(k);
                    let w = if lo + k < hi { hi -= k + 1; Some(want[hi]) } else { hi = lo; None };
                    ck!("BitIterator::nth_back", g == w, "nth_back({k}) got {g:?} want {w:?}");
                }
            }
            ck!("BitIterator::len", it.len() == hi - lo, "len {} want {}", it.len(), hi - lo);
            n += 1;
        }
        let it2 = BitIterator::new(src, off, len);
        ck!("BitIterator::count", it2.count() == len, "count");
        let it3 = BitIterator::new(src, off, len);
        ck!("BitIterator::last", it3.last() == want.last().cloned(), "last");
        if len > 0 {
            let it4 = BitIterator::new(src, off, len);
            ck!("BitIterator::max", it4.max() == Some(ones > 0), "max");
        }
        n += 3;
    }
    // BitChunks: chunk words + remainder reproduce the bits
    {
        let ch = BitChunks::new(src, off, len);
        let mut got: Vec<bool> = Vec::with_capacity(len);
        for w in ch.iter() {
            for k in 0..64 {
                got.push(w & (1u64 << k) != 0);
            }
        }
        let rl = ch.remainder_len();
        let rb = ch.remainder_bits();
        ck!("BitChunks", ch.chunk_len() == len / 64 && rl == len % 64, "chunk_len {} remainder_len {rl} for len {len}", ch.chunk_len());
        for k in 0..rl {
            got.push(rb & (1u64 << k) != 0);
        }
        ck!("BitChunks", got == want, "chunks + remainder do not reproduce the window");
        ck!("BitChunks::remainder_bits", rl == 64 || rb >> rl == 0, "remainder has bits above remainder_len");
        let padded: Vec<u64> = ch.iter_padded().collect();
        let mut got2: Vec<bool> = Vec::new();
        for w in &padded {
            for k in 0..64 {
                got2.push(w & (1u64 << k) != 0);
            }
        }
        ck!("BitChunks::iter_padded", got2.len() >= len && got2[..len] == want[..] && got2[len..].iter().all(|b| !*b), "padded words differ or padding not zero");
        let bc = bb.bit_chunks();
        ck!("BooleanBuffer::bit_chunks", bc.iter().collect::<Vec<_>>() == ch.iter().collect::<Vec<_>>() && bc.remainder_bits() == rb, "differs from BitChunks::new");
        n += 5;
    }
    // UnalignedBitChunk: prefix/chunks/suffix with paddings reproduce the bits
    {
        let u = UnalignedBitChunk::new(src, off, len);
        let words: Vec<u64> = u.iter().collect();
        let lead = u.lead_padding();
        let trail = u.trailing_padding();
        ck!("UnalignedBitChunk", words.len() * 64 == lead + len + trail || (len == 0 && words.is_empty()), "{} words, lead {lead} len {len} trail {trail}", words.len());
        let mut all: Vec<bool> = Vec::new();
        for w in &words {
            for k in 0..64 {
                all.push(w & (1u64 << k) != 0);
            }
        }
        if !words.is_empty() {
            ck!("UnalignedBitChunk", all[lead..lead + len] == want[..], "bits differ");
            ck!("UnalignedBitChunk", all[..lead].iter().all(|b| !*b) && all[lead + len..].iter().all(|b| !*b), "padding bits not zero");
        }
        ck!("UnalignedBitChunk::count_ones", u.count_ones() == ones, "got {} want {ones}", u.count_ones());
        n += 4;
    }
    // unary word ops: fresh result
    for (name, f, m) in UN_OPS.iter() {
        let wantv: Vec<bool> = want.iter().map(|b| m(*b)).collect();
        let r = BooleanBuffer::from_bitwise_unary_op(src, off, len, f);
        ck!("from_bitwise_unary_op", r.len() == len && bb_vec(&r) == wantv, "op {name}: differs");
        let r = bitwise_unary_op_helper(&buf, off, len, f);
        ck!("bitwise_unary_op_helper", r.len() * 8 >= len && unpack(r.as_slice(), 0, len) == wantv, "op {name}: differs");
        n += 2;
    }
    let r = buffer_unary_not(&buf, off, len);
    ck!("buffer_unary_not", unpack(r.as_slice(), 0, len) == want.iter().map(|b| !*b).collect::<Vec<_>>(), "differs");
    let r = !&bb;
    ck!("Not", r.len() == len && bb_vec(&r) == want.iter().map(|b| !*b).collect::<Vec<_>>(), "differs");
    let bs = buf.bit_slice(off, len);
    ck!("Buffer::bit_slice", unpack(bs.as_slice(), 0, len) == want, "differs");
    let cb = BooleanBuffer::collect_bool(len, |i| want[i]);
    ck!("collect_bool", bb_vec(&cb) == want && cb == bb, "differs");
    let mcb = MutableBuffer::collect_bool(len, |i| want[i]);
    ck!("MutableBuffer::collect_bool", unpack(mcb.as_slice(), 0, len) == want, "differs");
    n += 5;
    // from Vec<bool> / FromIterator
    let fv = BooleanBuffer::from(want.clone());
    let fi: BooleanBuffer = want.iter().cloned().collect();
    ck!("From<Vec<bool>>", bb_vec(&fv) == want && bb_vec(&fi) == want && fv == bb, "differs");
    n += 1;

    // in-place unary op on a destination with random surroundings
    for (name, f, m) in UN_OPS.iter() {
        let mut dst = bytes.clone();
        bit_util::apply_bitwise_unary_op(&mut dst, off, len, f);
        let mut wantd = bits.to_vec();
        for i in 0..len {
            wantd[off + i] = m(bits[off + i]);
        }
        let got = unpack(&dst, 0, bits.len());
        ck!("apply_bitwise_unary_op", got == wantd, "op {name}: destination differs (inside or outside the range) at bit {:?}", got.iter().zip(&wantd).position(|(a, b)| a != b));
        n += 1;
    }
    Ok(n)
}

/// Two-source operations: windows `[lo, lo+len)` of `l` and `[ro, ro+len)` of `r`.
fn two_source(rng: &mut Rng, l: &[bool], lo: usize, r: &[bool], ro: usize, len: usize, mis: usize) -> Result<u64, Fail> {
    let lb = pack(l);
    let rb = pack(r);
    let lbuf = buffer_mis(&lb, mis);
    let rbuf = buffer_mis(&rb, (mis + 3) % 8);
    let lw = &l[lo..lo + len];
    let rw = &r[ro..ro + len];
    let mut n = 0u64;
    for (name, f, m) in BIN_OPS.iter() {
        let want: Vec<bool> = lw.iter().zip(rw).map(|(a, b)| m(*a, *b)).collect();
        let g = BooleanBuffer::from_bitwise_binary_op(lbuf.as_slice(), lo, rbuf.as_slice(), ro, len, f);
        ck!("from_bitwise_binary_op", g.len() == len && bb_vec(&g) == want, "op {name}: differs at {:?}", bb_vec(&g).iter().zip(&want).position(|(a, b)| a != b));
        let g = bitwise_bin_op_helper(&lbuf, lo, &rbuf, ro, len, f);
        ck!("bitwise_bin_op_helper", unpack(g.as_slice(), 0, len) == want, "op {name}: differs");
        // in place: left is the destination
        let mut dst = lb.clone();
        bit_util::apply_bitwise_binary_op(&mut dst, lo, rbuf.as_slice(), ro, len, f);
        let mut wantd = l.to_vec();
        wantd[lo..lo + len].copy_from_slice(&want);
        let got = unpack(&dst, 0, l.len());
        ck!("apply_bitwise_binary_op", got == wantd, "op {name}: destination differs (inside or outside the range) at bit {:?}", got.iter().zip(&wantd).position(|(a, b)| a != b));
        n += 3;
    }
    let and: Vec<bool> = lw.iter().zip(rw).map(|(a, b)| *a & *b).collect();
    let or: Vec<bool> = lw.iter().zip(rw).map(|(a, b)| *a | *b).collect();
    let xor: Vec<bool> = lw.iter().zip(rw).map(|(a, b)| *a ^ *b).collect();
    let andnot: Vec<bool> = lw.iter().zip(rw).map(|(a, b)| *a & !*b).collect();
    ck!("buffer_bin_and", unpack(buffer_bin_and(&lbuf, lo, &rbuf, ro, len).as_slice(), 0, len) == and, "differs");
    ck!("buffer_bin_or", unpack(buffer_bin_or(&lbuf, lo, &rbuf, ro, len).as_slice(), 0, len) == or, "differs");
    ck!("buffer_bin_xor", unpack(buffer_bin_xor(&lbuf, lo, &rbuf, ro, len).as_slice(), 0, len) == xor, "differs");
    ck!("buffer_bin_and_not", unpack(buffer_bin_and_not(&lbuf, lo, &rbuf, ro, len).as_slice(), 0, len) == andnot, "differs");
    n += 4;
    // operators on BooleanBuffer (and assign forms on shared / unique storage)
    let a = BooleanBuffer::new(lbuf.clone(), lo, len);
    let b = BooleanBuffer::new(rbuf.clone(), ro, len);
    ck!("BitAnd", bb_vec(&(&a & &b)) == and, "differs");
    ck!("BitOr", bb_vec(&(&a | &b)) == or, "differs");
    ck!("BitXor", bb_vec(&(&a ^ &b)) == xor, "differs");
    n += 3;
    for (which, want) in [("and", &and), ("or", &or), ("xor", &xor)] {
        for unique in [false, true] {
            // unique: storage owned only by `x`; shared: `a` still references it
            let mut x = if unique {
                BooleanBuffer::new(buffer_mis(&lb, mis), lo, len)
            } else {
                a.clone()
            };
            match which {
                "and" => x &= &b,
                "or" => x |= &b,
                _ => x ^= &b,
            }
            ck!("BitAssign", x.len() == len && bb_vec(&x) == *want, "{which}= (unique={unique}) differs");
            // the shared original must be unchanged
            ck!("BitAssign", bb_vec(&a) == lw, "{which}= modified a shared buffer");
            ck!("BitAssign", bb_vec(&b) == rw, "{which}= modified its right operand");
            n += 1;
        }
    }
    // set_bits: copy right window into left destination, returns zero count
    {
        let mut dst = lb.clone();
        let zeros = arrow_buffer::bit_mask::set_bits(&mut dst, rbuf.as_slice(), lo, ro, len);
        let mut wantd = l.to_vec();
        // set_bits ORs into a zeroed destination by contract? The documented
        // contract is "sets all bits on write_data in the range to be equal to data".
        wantd[lo..lo + len].copy_from_slice(rw);
        let got = unpack(&dst, 0, l.len());
        // set_bits is documented for copying into a destination range; callers
        // pass zero-initialised ranges. Assert equality only when the destination
        // range was zero, and always assert bits outside are unchanged.
        let dest_zero = lw.iter().all(|b| !*b);
        if dest_zero {
            ck!("set_bits", got == wantd, "destination differs at {:?}", got.iter().zip(&wantd).position(|(a, b)| a != b));
        } else {
            ck!("set_bits", got[..lo] == wantd[..lo] && got[lo + len..] == wantd[lo + len..], "bits outside the range modified");
        }
        ck!("set_bits", zeros == rw.iter().filter(|b| !**b).count(), "null count {zeros} want {}", rw.iter().filter(|b| !**b).count());
        n += 2;
    }
    // quaternary helper
    {
        let c = make_bits(rng, r.len(), ro, len, "random");
        let d = make_bits(rng, l.len(), lo, len, "random");
        let cbuf = buffer_mis(&pack(&c), 1);
        let dbuf = buffer_mis(&pack(&d), 5);
        let g = bitwise_quaternary_op_helper([&lbuf, &rbuf, &cbuf, &dbuf], [lo, ro, ro, lo], len, |a, b, c, d| (a & b) | (c ^ d));
        let want: Vec<bool> = (0..len).map(|i| (lw[i] & rw[i]) | (c[ro + i] ^ d[lo + i])).collect();
        ck!("bitwise_quaternary_op_helper", unpack(g.as_slice(), 0, len) == want, "differs");
        n += 1;
    }
    // NullBuffer union / contains
    {
        let na = NullBuffer::new(a.clone());
        let nb = NullBuffer::new(b.clone());
        ck!("NullBuffer::null_count", na.null_count() == lw.iter().filter(|x| !**x).count(), "differs");
        let u = NullBuffer::union(Some(&na), Some(&nb));
        let wantu: Vec<bool> = and.clone();
        match &u {
            Some(u) => {
                ck!("NullBuffer::union", bb_vec(u.inner()) == wantu && u.null_count() == wantu.iter().filter(|x| !**x).count(), "differs");
            }
            None => ck!("NullBuffer::union", wantu.iter().all(|x| *x), "None but nulls exist"),
        }
        let u1 = NullBuffer::union(Some(&na), None);
        match &u1 {
            Some(u) => ck!("NullBuffer::union", bb_vec(u.inner()) == lw, "one-sided differs"),
            None => ck!("NullBuffer::union", lw.iter().all(|x| *x), "one-sided None but nulls exist"),
        }
        let c = make_bits(rng, len, 0, len, "random");
        let nc = NullBuffer::new(BooleanBuffer::from(c.clone()));
        let um = NullBuffer::union_many([Some(&na), None, Some(&nb), Some(&nc)]);
        let wantm: Vec<bool> = (0..len).map(|i| lw[i] & rw[i] & c[i]).collect();
        match &um {
            Some(u) => ck!("NullBuffer::union_many", u.len() == len && bb_vec(u.inner()) == wantm && u.null_count() == wantm.iter().filter(|x| !**x).count(), "differs"),
            None => ck!("NullBuffer::union_many", wantm.iter().all(|x| *x), "None but nulls exist"),
        }
        // contains: every null of nb is a null of na
        let wantc = (0..len).all(|i| rw[i] || !lw[i]);
        ck!("NullBuffer::contains", na.contains(&nb) == wantc, "got {} want {wantc}", na.contains(&nb));
        let k = 1 + rng.below(4);
        let e = na.expand(k);
        let wante: Vec<bool> = lw.iter().flat_map(|b| std::iter::repeat_n(*b, k)).collect();
        ck!("NullBuffer::expand", e.len() == len * k && bb_vec(e.inner()) == wante && e.null_count() == wante.iter().filter(|x| !**x).count(), "expand({k}) differs");
        let o = rng.below(len + 1);
        let sl = rng.below(len - o + 1);
        let s = na.slice(o, sl);
        ck!("NullBuffer::slice", bb_vec(s.inner()) == lw[o..o + sl] && s.null_count() == lw[o..o + sl].iter().filter(|x| !**x).count(), "slice({o},{sl}) differs");
        ck!("NullBuffer::valid_indices", na.valid_indices().collect::<Vec<_>>() == lw.iter().enumerate().filter(|(_, b)| **b).map(|(i, _)| i).collect::<Vec<_>>(), "differs");
        let mut seen = Vec::new();
        let _ = na.try_for_each_valid_idx(|i| -> Result<(), ()> { seen.push(i); Ok(()) });
        ck!("NullBuffer::try_for_each_valid_idx", seen == lw.iter().enumerate().filter(|(_, b)| **b).map(|(i, _)| i).collect::<Vec<_>>(), "differs");
        n += 9;
    }
    Ok(n)
}

/// Random op sequences on the builders against `Vec<bool>`.
fn builders(rng: &mut Rng) -> Result<u64, Fail> {
    let mut n = 0u64;
    let mut model: Vec<bool> = Vec::new();
    let mut b = BooleanBufferBuilder::new(rng.below(70));
    let mut nb = NullBufferBuilder::new(rng.below(70));
    let steps = 5 + rng.below(40);
    for _ in 0..steps {
        match rng.below(12) {
            0 => {
                let v = rng.bool();
                b.append(v);
                nb.append(v);
                model.push(v);
            }
            1 => {
                let k = rng.len_biased(130);
                let v = rng.bool();
                b.append_n(k, v);
                if v { nb.append_n_non_nulls(k) } else { nb.append_n_nulls(k) }
                model.extend(std::iter::repeat_n(v, k));
            }
            2 => {
                let k = rng.len_biased(100);
                let s: Vec<bool> = (0..k).map(|_| rng.bool()).collect();
                b.append_slice(&s);
                nb.append_slice(&s);
                model.extend_from_slice(&s);
            }
            3 => {
                // append_packed_range from a random packed source
                let total = 1 + rng.below(200);
                let src: Vec<bool> = (0..total).map(|_| rng.bool()).collect();
                let s = rng.below(total);
                let e = s + rng.below(total - s + 1);
                b.append_packed_range(s..e, &pack(&src));
                nb.append_buffer(&NullBuffer::new(BooleanBuffer::new(Buffer::from_vec(pack(&src)), s, e - s)));
                model.extend_from_slice(&src[s..e]);
            }
            4 => {
                let total = rng.below(150);
                let src: Vec<bool> = (0..total + 9).map(|_| rng.bool()).collect();
                let o = rng.below(9);
                let bb = BooleanBuffer::new(Buffer::from_vec(pack(&src)), o, total);
                b.append_buffer(&bb);
                nb.append_buffer(&NullBuffer::new(bb));
                model.extend_from_slice(&src[o..o + total]);
            }
            5 if !model.is_empty() => {
                let i = rng.below(model.len());
                let v = rng.bool();
                b.set_bit(i, v);
                nb.set_bit(i, v);
                model[i] = v;
            }
            6 => {
                let l = rng.below(model.len() + 1);
                b.truncate(l);
                nb.truncate(l);
                model.truncate(l);
            }
            7 => {
                let l = rng.below(model.len() + 70);
                b.resize(l);
                // NullBufferBuilder has no resize: mirror it
                if l <= model.len() {
                    nb.truncate(l);
                } else {
                    nb.append_n_nulls(l - model.len());
                }
                model.resize(l, false);
            }
            8 => {
                let k = rng.below(70);
                b.advance(k);
                nb.append_n_nulls(k);
                model.extend(std::iter::repeat_n(false, k));
            }
            9 => {
                let w = rng.u64();
                let c = rng.below(65);
                b.append_word(w, c);
                for i in 0..c {
                    let v = w & (1u64 << i) != 0;
                    nb.append(v);
                    model.push(v);
                }
            }
            10 => {
                b.reserve(rng.below(200));
            }
            _ => {
                // observe without consuming
                let fc = b.finish_cloned();
                ck!("BooleanBufferBuilder::finish_cloned", bb_vec(&fc) == model, "differs from model (len {} vs {})", fc.len(), model.len());
                match nb.finish_cloned() {
                    Some(x) => ck!("NullBufferBuilder::finish_cloned", bb_vec(x.inner()) == model && x.null_count() == model.iter().filter(|v| !**v).count(), "differs from model"),
                    None => ck!("NullBufferBuilder::finish_cloned", model.iter().all(|v| *v), "None but model has nulls"),
                }
            }
        }
        ck!("BooleanBufferBuilder::len", b.len() == model.len(), "len {} want {}", b.len(), model.len());
        ck!("NullBufferBuilder::len", nb.len() == model.len(), "len {} want {}", nb.len(), model.len());
        if !model.is_empty() {
            let i = rng.below(model.len());
            ck!("BooleanBufferBuilder::get_bit", b.get_bit(i) == model[i], "bit {i}");
            ck!("NullBufferBuilder::is_valid", nb.is_valid(i) == model[i], "bit {i}");
        }
        n += 1;
    }
    let f = b.finish();
    ck!("BooleanBufferBuilder::finish", bb_vec(&f) == model, "differs from model");
    ck!("BooleanBufferBuilder::finish", b.len() == 0, "builder not reset");
    match nb.finish() {
        Some(x) => ck!("NullBufferBuilder::finish", bb_vec(x.inner()) == model && x.null_count() == model.iter().filter(|v| !**v).count(), "differs from model"),
        None => ck!("NullBufferBuilder::finish", model.iter().all(|v| *v), "None but model has nulls"),
    }
    Ok(n + 2)
}

fn report(ctx: &mut Ctx, r: Result<Result<u64, Fail>, crate::mon::PanicInfo>, detail: impl Fn() -> String, class: String) {
    match r {
        Ok(Ok(n)) => {
            ctx.evals_n(n);
            ctx.class(class);
        }
        Ok(Err(f)) => ctx.violation(&format!("C19|{}|mismatch", f.op), format!("{}: {}\n{}", f.op, f.msg, detail())),
        Err(p) => ctx.panic_violation("bitop", &p, detail()),
    }
}

pub fn run(ctx: &mut Ctx) {
    use crate::mon::Tier;
    let thorough = ctx.tier == Tier::Thorough;
    // ---- single-source grid: offsets 0..=130 x lengths 0..=200
    let (max_off, max_len) = match ctx.tier {
        Tier::Tiny => (9u64, 20u64),
        _ => (130, 200),
    };
    let total = (max_off + 1) * (max_len + 1);
    let mut complete = true;
    for i in ctx.cases("single", total) {
        if ctx.out_of_time() {
            complete = false;
            break;
        }
        let mut rng = ctx.begin("single", i);
        let off = (i / (max_len + 1)) as usize;
        let len = (i % (max_len + 1)) as usize;
        // quick: step-sample the grid (every case in thorough)
        if ctx.tier == Tier::Quick && ctx.only_case.is_none() && !rng.chance(1, 3) {
            continue;
        }
        for (ci, content) in CONTENTS.iter().enumerate() {
            let mis = (i as usize + ci) % 8;
            let tail = rng.below(80);
            let bits = make_bits(&mut rng, off + len + tail, off, len, content);
            let mut r2 = rng.fork();
            let res = guard(|| single_source(&mut r2, &bits, off, len, mis));
            report(ctx, res, || format!("offset {off} len {len} content {content} misalign {mis} total_bits {}", bits.len()), format!("single|off%64={}|len%64={}|{content}|mis{mis}", off % 64, len % 64));
        }
        ctx.sample(|| format!("single-source ops on bit window offset={off} len={len} x contents {CONTENTS:?}"));
    }
    // ---- two-source grid: offset pairs up to 70 x lengths 0..=140
    let (mo, ml) = match ctx.tier {
        Tier::Tiny => (5u64, 12u64),
        Tier::Quick => (70, 140),
        Tier::Thorough => (70, 140),
    };
    let total2 = (mo + 1) * (mo + 1) * (ml + 1);
    for i in ctx.cases("binary", total2) {
        if ctx.out_of_time() {
            complete = false;
            break;
        }
        let mut rng = ctx.begin("binary", i);
        let lo = (i / ((mo + 1) * (ml + 1))) as usize;
        let ro = ((i / (ml + 1)) % (mo + 1)) as usize;
        let len = (i % (ml + 1)) as usize;
        // quick: sample 1/40 of the grid; thorough: all lengths for offset pairs
        // with equal and unequal sub-word alignment, 1/3 of the rest
        if ctx.only_case.is_none() {
            if ctx.tier == Tier::Quick && !rng.chance(1, 40) {
                continue;
            }
            if false && thorough {
                continue;
            }
        }
        let content = *rng.pick(&CONTENTS);
        let mis = i as usize % 8;
        let (lt, rt) = (rng.below(70), rng.below(70));
        let l = make_bits(&mut rng, lo + len + lt, lo, len, content);
        let r = make_bits(&mut rng, ro + len + rt, ro, len, "random");
        let mut r2 = rng.fork();
        let res = guard(|| two_source(&mut r2, &l, lo, &r, ro, len, mis));
        report(ctx, res, || format!("left offset {lo} right offset {ro} len {len} content {content} misalign {mis}"), format!("binary|lo%8={}|ro%8={}|len%64={}|{content}", lo % 8, ro % 8, len % 64));
    }
    // ---- builders
    let nb = ctx.tier.pick(20u64, 20_000, 3_000_000);
    for i in ctx.cases("builders", nb) {
        if ctx.out_of_time() {
            complete = false;
            break;
        }
        let mut rng = ctx.begin("builders", i);
        let res = guard(|| builders(&mut rng));
        report(ctx, res, || "builder op sequence (replay the case)".to_string(), format!("builders|{}", i % 97));
    }
    // ---- larger sizes, sampled
    let nl = ctx.tier.pick(4u64, 3_000, 300_000);
    for i in ctx.cases("large", nl) {
        if ctx.out_of_time() {
            complete = false;
            break;
        }
        let mut rng = ctx.begin("large", i);
        let off = rng.below(3000);
        let len = match rng.below(4) {
            0 => rng.below(100_000),
            1 => 64 * rng.below(300) + rng.below(3),
            _ => rng.below(5000),
        };
        // the tiny tier runs under Miri (~4 orders of magnitude slower): keep windows small
        let (off, len) = if ctx.tier == Tier::Tiny { (off % 200, len % 700) } else { (off, len) };
        let content = *rng.pick(&CONTENTS);
        let tail = rng.below(100);
        let bits = make_bits(&mut rng, off + len + tail, off, len, content);
        let mis = rng.below(8);
        let mut r2 = rng.fork();
        let res = guard(|| single_source(&mut r2, &bits, off, len, mis));
        report(ctx, res, || format!("large: offset {off} len {len} content {content} misalign {mis}"), format!("large|off%64={}|len%64={}|{content}", off % 64, len % 64));
        let ro = rng.below(3000);
        let rbits = make_bits(&mut rng, ro + len + tail, ro, len, "random");
        let mut r3 = rng.fork();
        let res = guard(|| two_source(&mut r3, &bits, off, &rbits, ro, len, mis));
        report(ctx, res, || format!("large binary: left offset {off} right offset {ro} len {len} content {content}"), format!("largebin|lo%8={}|ro%8={}|{content}", off % 8, ro % 8));
    }
    // the single-source grid was enumerated completely (thorough only)
    ctx.exhaustive = thorough && complete && ctx.only_case.is_none();
}
