//! C13 reference model: what `cast(x, b)` must produce for a logical value of
//! type `a`, written independently of arrow-cast (std integer/float semantics,
//! num-bigint for decimals, chrono for calendar arithmetic).
//!
//! The model is three-valued per position: an exact expectation, "not
//! representable" (safe → null, strict → Err), or "declined" (`Any` /
//! `NonNull`), where only the strict/safe duality is asserted.

use crate::val::Val;
use arrow_buffer::i256;
use arrow_schema::{DataType, IntervalUnit, TimeUnit, UnionFields};
use chrono::{DateTime, NaiveDate, NaiveDateTime};
use num_bigint::BigInt;
use num_traits::{FromPrimitive, Signed, ToPrimitive, Zero};

#[derive(Clone, Debug)]
pub enum Exp {
    /// exactly this value (`Val::Null` for a null)
    V(Val),
    /// valid input that the target type cannot represent
    Unrep,
    /// model declines; a null here counts as "nulled by safe mode"
    Any,
    /// representable for sure (must not be null), value not modelled
    NonNull,
    /// any of these values (unspecified rounding direction)
    OneOf(Vec<Val>),
    List(Vec<Exp>),
    Struct(Vec<Exp>),
}

#[derive(Clone, Copy, Debug, PartialEq, Eq)]
pub enum Mis {
    /// model says unrepresentable, cast produced a value
    ExpectedNull,
    /// model says representable, cast produced null
    UnexpectedNull,
    Value,
    Shape,
}

impl Mis {
    pub fn name(&self) -> &'static str {
        match self {
            Mis::ExpectedNull => "value-for-unrepresentable",
            Mis::UnexpectedNull => "null-for-representable",
            Mis::Value => "wrong-value",
            Mis::Shape => "wrong-shape",
        }
    }
}

fn is_nan(v: &Val) -> bool {
    match v {
        Val::F16(b) => half::f16::from_bits(*b).is_nan(),
        Val::F32(b) => f32::from_bits(*b).is_nan(),
        Val::F64(b) => f64::from_bits(*b).is_nan(),
        _ => false,
    }
}

pub fn contains_nan(v: &Val) -> bool {
    match v {
        Val::List(x) | Val::Struct(x) => x.iter().any(contains_nan),
        Val::Union(_, x) => contains_nan(x),
        other => is_nan(other),
    }
}

/// equality with all NaNs of one width identified (payloads are not asserted)
pub fn val_eq(a: &Val, b: &Val) -> bool {
    match (a, b) {
        (Val::F16(_), Val::F16(_)) | (Val::F32(_), Val::F32(_)) | (Val::F64(_), Val::F64(_)) => {
            a == b || (is_nan(a) && is_nan(b))
        }
        (Val::List(x), Val::List(y)) | (Val::Struct(x), Val::Struct(y)) => {
            x.len() == y.len() && x.iter().zip(y).all(|(p, q)| val_eq(p, q))
        }
        (Val::Union(t, x), Val::Union(u, y)) => t == u && val_eq(x, y),
        _ => a == b,
    }
}

pub fn vals_eq(a: &[Val], b: &[Val]) -> bool {
    a.len() == b.len() && a.iter().zip(b).all(|(p, q)| val_eq(p, q))
}

/// Number of positions nulled by the cast (Unrep / Any positions that hold a
/// null), or the first mismatch.
pub fn match_exp(e: &Exp, got: &Val) -> Result<usize, (Mis, String)> {
    let null = crate::extract::is_logical_null(got);
    match e {
        Exp::V(v) => {
            if val_eq(v, got) || (v.is_null() && null) {
                Ok(0)
            } else if null {
                Err((Mis::UnexpectedNull, format!("expected {v:?}, got NULL")))
            } else if v.is_null() {
                Err((Mis::Value, format!("expected NULL (null input), got {got:?}")))
            } else {
                Err((Mis::Value, format!("expected {v:?}, got {got:?}")))
            }
        }
        Exp::Unrep => {
            if null {
                Ok(1)
            } else {
                Err((
                    Mis::ExpectedNull,
                    format!("value is not representable in the target type, got {got:?}"),
                ))
            }
        }
        Exp::Any => Ok(null as usize),
        Exp::NonNull => {
            if null {
                Err((Mis::UnexpectedNull, "expected a non-null value, got NULL".into()))
            } else {
                Ok(0)
            }
        }
        Exp::OneOf(vs) => {
            if vs.iter().any(|v| val_eq(v, got)) {
                Ok(0)
            } else if null {
                Err((Mis::UnexpectedNull, format!("expected one of {vs:?}, got NULL")))
            } else {
                Err((Mis::Value, format!("expected one of {vs:?}, got {got:?}")))
            }
        }
        Exp::List(es) => match got {
            Val::List(gs) if gs.len() == es.len() => {
                let mut n = 0;
                for (i, (e, g)) in es.iter().zip(gs).enumerate() {
                    n += match_exp(e, g).map_err(|(m, s)| (m, format!("[{i}]: {s}")))?;
                }
                Ok(n)
            }
            Val::Null => Err((Mis::UnexpectedNull, "expected a list, got NULL".into())),
            other => Err((
                Mis::Shape,
                format!("expected a list of {} elements, got {other:?}", es.len()),
            )),
        },
        Exp::Struct(es) => match got {
            Val::Struct(gs) if gs.len() == es.len() => {
                let mut n = 0;
                for (i, (e, g)) in es.iter().zip(gs).enumerate() {
                    n += match_exp(e, g).map_err(|(m, s)| (m, format!(".{i}: {s}")))?;
                }
                Ok(n)
            }
            Val::Null => Err((Mis::UnexpectedNull, "expected a struct, got NULL".into())),
            other => Err((Mis::Shape, format!("expected a struct, got {other:?}"))),
        },
    }
}

pub fn has_unrep(e: &Exp) -> bool {
    match e {
        Exp::Unrep => true,
        Exp::List(x) | Exp::Struct(x) => x.iter().any(has_unrep),
        _ => false,
    }
}

/// fully modelled (no declined position)
pub fn is_exact(e: &Exp) -> bool {
    match e {
        Exp::V(_) | Exp::Unrep | Exp::OneOf(_) => true,
        Exp::Any | Exp::NonNull => false,
        Exp::List(x) | Exp::Struct(x) => x.iter().all(is_exact),
    }
}

// ------------------------------------------------------------------ types

pub fn is_list_family(dt: &DataType) -> bool {
    matches!(
        dt,
        DataType::List(_) | DataType::LargeList(_) | DataType::ListView(_) | DataType::LargeListView(_)
    )
}

pub fn list_child(dt: &DataType) -> Option<&DataType> {
    match dt {
        DataType::List(f)
        | DataType::LargeList(f)
        | DataType::ListView(f)
        | DataType::LargeListView(f) => Some(f.data_type()),
        _ => None,
    }
}

pub fn is_string(dt: &DataType) -> bool {
    matches!(dt, DataType::Utf8 | DataType::LargeUtf8 | DataType::Utf8View)
}

pub fn is_binary(dt: &DataType) -> bool {
    matches!(dt, DataType::Binary | DataType::LargeBinary | DataType::BinaryView)
}

pub fn is_decimal(dt: &DataType) -> bool {
    dec_params(dt).is_some()
}

/// (native bits, precision, scale)
pub fn dec_params(dt: &DataType) -> Option<(u32, u8, i8)> {
    match dt {
        DataType::Decimal32(p, s) => Some((32, *p, *s)),
        DataType::Decimal64(p, s) => Some((64, *p, *s)),
        DataType::Decimal128(p, s) => Some((128, *p, *s)),
        DataType::Decimal256(p, s) => Some((256, *p, *s)),
        _ => None,
    }
}

pub fn int_range(dt: &DataType) -> Option<(i128, i128)> {
    use DataType::*;
    Some(match dt {
        Int8 => (i8::MIN as i128, i8::MAX as i128),
        Int16 => (i16::MIN as i128, i16::MAX as i128),
        Int32 => (i32::MIN as i128, i32::MAX as i128),
        Int64 => (i64::MIN as i128, i64::MAX as i128),
        UInt8 => (0, u8::MAX as i128),
        UInt16 => (0, u16::MAX as i128),
        UInt32 => (0, u32::MAX as i128),
        UInt64 => (0, u64::MAX as i128),
        _ => return None,
    })
}

fn int_bytes(dt: &DataType) -> usize {
    use DataType::*;
    match dt {
        Int8 | UInt8 => 1,
        Int16 | UInt16 => 2,
        Int32 | UInt32 => 4,
        _ => 8,
    }
}

pub fn is_float(dt: &DataType) -> bool {
    matches!(dt, DataType::Float16 | DataType::Float32 | DataType::Float64)
}

/// arrow's `DataType::is_numeric`
pub fn is_numeric(dt: &DataType) -> bool {
    int_range(dt).is_some() || is_float(dt) || is_decimal(dt)
}

pub fn unit_mult(u: &TimeUnit) -> i128 {
    match u {
        TimeUnit::Second => 1,
        TimeUnit::Millisecond => 1_000,
        TimeUnit::Microsecond => 1_000_000,
        TimeUnit::Nanosecond => 1_000_000_000,
    }
}

/// "+09:00", "-09", "+0930" (fixed offsets only; named zones are not modelled)
pub fn tz_offset_secs(tz: &str) -> Option<i64> {
    let b = tz.as_bytes();
    let d: [u8; 4] = match b.len() {
        6 if b[3] == b':' => [b[1], b[2], b[4], b[5]],
        5 => [b[1], b[2], b[3], b[4]],
        3 => [b[1], b[2], b'0', b'0'],
        _ => return None,
    };
    if d.iter().any(|c| !c.is_ascii_digit()) {
        return None;
    }
    let n = |c: u8| (c - b'0') as i64;
    let secs = (n(d[0]) * 10 + n(d[1])) * 3600 + (n(d[2]) * 10 + n(d[3])) * 60;
    if secs >= 86_400 {
        return None;
    }
    match b[0] {
        b'+' => Some(secs),
        b'-' => Some(-secs),
        _ => None,
    }
}

// ------------------------------------------------------------ numeric glue

fn big_of(v: &Val) -> Option<BigInt> {
    match v {
        Val::Int(i) => Some(BigInt::from(*i)),
        Val::Big(b) => Some(BigInt::from_signed_bytes_le(&b.to_le_bytes())),
        _ => None,
    }
}

fn pow10(k: u32) -> BigInt {
    BigInt::from(10u8).pow(k)
}

fn fits_bits(x: &BigInt, bits: u32) -> bool {
    let lim = BigInt::from(1u8) << (bits - 1);
    *x >= -lim.clone() && *x < lim
}

fn big_to_val(x: &BigInt, bits: u32) -> Val {
    if bits == 256 {
        let mut bytes = x.to_signed_bytes_le();
        let fill = if x.is_negative() { 0xFF } else { 0 };
        bytes.resize(32, fill);
        let mut arr = [0u8; 32];
        arr.copy_from_slice(&bytes[..32]);
        Val::Big(i256::from_le_bytes(arr))
    } else {
        Val::Int(x.to_i128().expect("model: decimal fits i128"))
    }
}

/// decimal native value with a precision check
fn dec_val(x: &BigInt, bits: u32, p: u8) -> Exp {
    if !fits_bits(x, bits) || x.abs() >= pow10(p as u32) {
        Exp::Unrep
    } else {
        Exp::V(big_to_val(x, bits))
    }
}

fn int_val(x: &BigInt, b: &DataType) -> Exp {
    let (lo, hi) = int_range(b).expect("model: int target");
    match x.to_i128() {
        Some(i) if i >= lo && i <= hi => Exp::V(Val::Int(i)),
        _ => Exp::Unrep,
    }
}

fn float_of(v: &Val) -> Option<f64> {
    v.f64()
}

fn float_val(b: &DataType, f: f64) -> Val {
    match b {
        DataType::Float16 => Val::F16(half::f16::from_f64(f).to_bits()),
        DataType::Float32 => Val::F32((f as f32).to_bits()),
        _ => Val::F64(f.to_bits()),
    }
}

/// integer -> float, IEEE round-to-nearest (exact when representable)
fn int_to_float(i: i128, b: &DataType) -> Exp {
    match b {
        DataType::Float64 => Exp::V(Val::F64((i as f64).to_bits())),
        DataType::Float32 => Exp::V(Val::F32((i as f32).to_bits())),
        _ => {
            // single rounding and rounding through f32 are both accepted
            let a = half::f16::from_f64(i as f64).to_bits();
            let c = half::f16::from_f32(i as f32).to_bits();
            Exp::OneOf(vec![Val::F16(a), Val::F16(c)])
        }
    }
}

/// float -> integer: truncation toward zero, range checked
fn float_to_int(f: f64, b: &DataType) -> Exp {
    if !f.is_finite() {
        return Exp::Unrep;
    }
    let t = f.trunc();
    match BigInt::from_f64(t) {
        Some(x) => int_val(&x, b),
        None => Exp::Unrep,
    }
}

fn float_to_float(v: &Val, b: &DataType) -> Exp {
    let f = float_of(v).unwrap();
    match (v, b) {
        (Val::F64(_), DataType::Float16) => {
            let a = half::f16::from_f64(f).to_bits();
            let c = half::f16::from_f32(f as f32).to_bits();
            Exp::OneOf(vec![Val::F16(a), Val::F16(c)])
        }
        _ => Exp::V(float_val(b, f)),
    }
}

// ------------------------------------------------------------ temporal glue

const DAY_S: i128 = 86_400;

fn naive_of(secs: i128, nanos: u32) -> Option<NaiveDateTime> {
    let s = i64::try_from(secs).ok()?;
    DateTime::from_timestamp(s, nanos).map(|d| d.naive_utc())
}

/// the instant a timestamp value denotes, as chrono sees it
pub fn ts_naive(v: i128, u: &TimeUnit) -> Option<NaiveDateTime> {
    let m = unit_mult(u);
    let secs = v.div_euclid(m);
    let sub = v.rem_euclid(m);
    naive_of(secs, (sub * (1_000_000_000 / m)) as u32)
}

fn i64_val(x: i128) -> Exp {
    if x >= i64::MIN as i128 && x <= i64::MAX as i128 {
        Exp::V(Val::Int(x))
    } else {
        Exp::Unrep
    }
}

/// candidates of an integer division whose rounding direction is not specified
fn div_candidates(v: i128, d: i128) -> Vec<i128> {
    let t = v / d;
    let f = v.div_euclid(d);
    if t == f { vec![t] } else { vec![t, f] }
}

fn one_of(mut c: Vec<Exp>) -> Exp {
    if c.len() == 1 {
        return c.pop().unwrap();
    }
    // all candidates must agree on representability, otherwise decline
    let mut vals = vec![];
    for e in &c {
        match e {
            Exp::V(v) => vals.push(v.clone()),
            _ => return Exp::Any,
        }
    }
    vals.dedup();
    Exp::OneOf(vals)
}

fn days_from_epoch(d: NaiveDate) -> i128 {
    (d - NaiveDate::from_ymd_opt(1970, 1, 1).unwrap()).num_days() as i128
}

/// Timestamp(u1, tz1) -> Timestamp(u2, tz2)
fn ts_to_ts(v: i128, u1: &TimeUnit, tz1: &Option<std::sync::Arc<str>>, u2: &TimeUnit, tz2: &Option<std::sync::Arc<str>>) -> Exp {
    let (m1, m2) = (unit_mult(u1), unit_mult(u2));
    let conv: Vec<i128> = if m1 > m2 {
        div_candidates(v, m1 / m2)
    } else {
        let r = v * (m2 / m1);
        if r < i64::MIN as i128 || r > i64::MAX as i128 {
            return Exp::Unrep;
        }
        vec![r]
    };
    match (tz1, tz2) {
        (None, Some(tz)) => {
            let Some(off) = tz_offset_secs(tz) else { return Exp::Any };
            // the wall-clock reading is kept: value := local - offset
            one_of(
                conv.into_iter()
                    .map(|c| {
                        if ts_naive(c, u2).is_none() {
                            return Exp::Unrep;
                        }
                        let r = c - off as i128 * m2;
                        if ts_naive(r, u2).is_none() {
                            // arithmetic at the edge of chrono's range: declined
                            return Exp::Any;
                        }
                        i64_val(r)
                    })
                    .collect(),
            )
        }
        _ => one_of(conv.into_iter().map(i64_val).collect()),
    }
}

/// local wall-clock reading of a timestamp (None: outside chrono's range)
fn ts_local(v: i128, u: &TimeUnit, tz: &Option<std::sync::Arc<str>>) -> Result<Option<NaiveDateTime>, ()> {
    let Some(n) = ts_naive(v, u) else { return Ok(None) };
    match tz {
        None => Ok(Some(n)),
        Some(tz) => {
            let off = tz_offset_secs(tz).ok_or(())?;
            match n.checked_add_signed(chrono::TimeDelta::seconds(off)) {
                Some(l) => Ok(Some(l)),
                // real code panics or errors here; the model declines
                None => Err(()),
            }
        }
    }
}

fn temporal(a: &DataType, b: &DataType, v: &Val) -> Option<Exp> {
    use DataType::*;
    let i = v.int();
    Some(match (a, b) {
        (Int32, Date32) | (Int32, Time32(_)) | (Date32, Int32) | (Date32, Int64) => Exp::V(v.clone()),
        (Time32(_), Int32) | (Time32(_), Int64) | (Int64, Date64) | (Int64, Time64(_)) => Exp::V(v.clone()),
        (Date64, Int64) | (Time64(_), Int64) => Exp::V(v.clone()),
        (Int32, Interval(IntervalUnit::YearMonth)) => Exp::V(v.clone()),
        (Int32, Date64) => Exp::V(Val::Int(i? * 86_400_000)),
        (Int64, Date32) | (Date64, Int32) => int_val(&BigInt::from(i?), &Int32),
        (Date32, Date64) => Exp::V(Val::Int(i? * 86_400_000)),
        (Date64, Date32) => {
            let c = div_candidates(i?, 86_400_000);
            one_of(c.into_iter().map(|d| int_val(&BigInt::from(d), &Int32)).collect())
        }
        (Time32(u1) | Time64(u1), Time32(u2) | Time64(u2)) => {
            let (m1, m2) = (unit_mult(u1), unit_mult(u2));
            let x = i?;
            if x < 0 || x >= 86_400 * m1 {
                return Some(Exp::Any); // outside the Arrow value domain
            }
            if m1 > m2 { Exp::V(Val::Int(x / (m1 / m2))) } else { Exp::V(Val::Int(x * (m2 / m1))) }
        }
        (Timestamp(_, _), _) if is_numeric(b) => leaf(&Int64, b, v),
        (Duration(_), _) if is_numeric(b) => leaf(&Int64, b, v),
        (_, Timestamp(_, _)) | (_, Duration(_)) if is_numeric(a) => leaf(a, &Int64, v),
        (Timestamp(u1, tz1), Timestamp(u2, tz2)) => ts_to_ts(i?, u1, tz1, u2, tz2),
        (Duration(u1), Duration(u2)) => {
            let (m1, m2) = (unit_mult(u1), unit_mult(u2));
            if m1 > m2 {
                one_of(div_candidates(i?, m1 / m2).into_iter().map(i64_val).collect())
            } else {
                i64_val(i? * (m2 / m1))
            }
        }
        (Timestamp(u, tz), Date32) => match ts_local(i?, u, tz) {
            Ok(Some(l)) => Exp::V(Val::Int(days_from_epoch(l.date()))),
            Ok(None) => Exp::Unrep,
            Err(()) => Exp::Any,
        },
        // not asserted: whether Timestamp -> Date64 truncates to whole days
        (Timestamp(u, _), Date64) => {
            let m = unit_mult(u);
            if m == 1 {
                match i64_val(i? * 1000) {
                    Exp::Unrep => Exp::Unrep,
                    _ => Exp::NonNull,
                }
            } else {
                Exp::NonNull
            }
        }
        (Timestamp(u, tz), Time32(tu) | Time64(tu)) => match ts_local(i?, u, tz) {
            Ok(Some(l)) => {
                use chrono::Timelike;
                let t = l.time();
                let ns = t.num_seconds_from_midnight() as i128 * 1_000_000_000
                    + (t.nanosecond() % 1_000_000_000) as i128;
                Exp::V(Val::Int(ns / (1_000_000_000 / unit_mult(tu))))
            }
            Ok(None) => Exp::Unrep,
            Err(()) => Exp::Any,
        },
        (Date32, Timestamp(u, tz)) => {
            let r = i? * DAY_S * unit_mult(u);
            if r < i64::MIN as i128 || r > i64::MAX as i128 {
                Exp::Unrep
            } else {
                ts_to_ts(r, u, &None, u, tz)
            }
        }
        (Date64, Timestamp(u, tz)) => {
            let m = unit_mult(u);
            let c: Vec<i128> = if m >= 1000 { vec![i? * (m / 1000)] } else { div_candidates(i?, 1000) };
            one_of(
                c.into_iter()
                    .map(|r| {
                        if r < i64::MIN as i128 || r > i64::MAX as i128 {
                            Exp::Unrep
                        } else {
                            ts_to_ts(r, u, &None, u, tz)
                        }
                    })
                    .collect(),
            )
        }
        (Interval(IntervalUnit::YearMonth), Interval(IntervalUnit::MonthDayNano)) => {
            Exp::V(Val::IntervalMDN(i? as i32, 0, 0))
        }
        (Interval(IntervalUnit::DayTime), Interval(IntervalUnit::MonthDayNano)) => match v {
            Val::IntervalDT(d, ms) => Exp::V(Val::IntervalMDN(0, *d, *ms as i64 * 1_000_000)),
            _ => return None,
        },
        (Duration(u), Interval(IntervalUnit::MonthDayNano)) => {
            let r = i? * (1_000_000_000 / unit_mult(u));
            if r < i64::MIN as i128 || r > i64::MAX as i128 {
                Exp::Unrep
            } else {
                Exp::V(Val::IntervalMDN(0, 0, r as i64))
            }
        }
        (Interval(IntervalUnit::MonthDayNano), Duration(u)) => match v {
            Val::IntervalMDN(m, d, ns) => {
                if *m != 0 || *d != 0 {
                    Exp::Unrep
                } else {
                    let k = 1_000_000_000 / unit_mult(u);
                    one_of(div_candidates(*ns as i128, k).into_iter().map(i64_val).collect())
                }
            }
            _ => return None,
        },
        _ => return None,
    })
}

// ------------------------------------------------------------ text -> value

fn split_sign(s: &str) -> (bool, &str) {
    if let Some(r) = s.strip_prefix('-') {
        (true, r)
    } else if let Some(r) = s.strip_prefix('+') {
        (false, r)
    } else {
        (false, s)
    }
}

fn all_digits(s: &str) -> bool {
    !s.is_empty() && s.bytes().all(|c| c.is_ascii_digit())
}

/// `[+-]digits`
fn canonical_int(s: &str) -> Option<BigInt> {
    let (neg, d) = split_sign(s);
    if !all_digits(d) || d.len() > 100 {
        return None;
    }
    let x: BigInt = d.parse().ok()?;
    Some(if neg { -x } else { x })
}

/// `-?digits[.digits][e[+-]digits]`
fn canonical_float(s: &str) -> bool {
    let s = s.strip_prefix('-').unwrap_or(s);
    let (mant, exp) = match s.find(['e', 'E']) {
        Some(p) => (&s[..p], Some(&s[p + 1..])),
        None => (s, None),
    };
    if let Some(e) = exp {
        let (_, d) = split_sign(e);
        if !all_digits(d) || d.len() > 5 {
            return false;
        }
    }
    match mant.split_once('.') {
        Some((i, f)) => all_digits(i) && all_digits(f),
        None => all_digits(mant),
    }
}

/// `[+-]digits[.digits]` -> value * 10^scale, rounded half away from zero
fn canonical_decimal(s: &str, scale: u32) -> Option<BigInt> {
    let (neg, body) = split_sign(s);
    let (ip, fp) = match body.split_once('.') {
        Some((i, f)) => (i, f),
        None => (body, ""),
    };
    if !all_digits(ip) || (body.contains('.') && !all_digits(fp)) || body.len() > 200 {
        return None;
    }
    let mut x: BigInt = ip.parse().ok()?;
    let kept: String = fp.chars().take(scale as usize).collect();
    x = x * pow10(kept.len() as u32);
    if !kept.is_empty() {
        x += kept.parse::<BigInt>().ok()?;
    }
    x = x * pow10(scale - kept.len() as u32);
    if let Some(c) = fp.chars().nth(scale as usize) {
        if c >= '5' {
            x += 1;
        }
    }
    Some(if neg { -x } else { x })
}

fn canonical_date(s: &str) -> Option<Option<NaiveDate>> {
    let b = s.as_bytes();
    if !s.is_ascii() || b.len() != 10 || b[4] != b'-' || b[7] != b'-' {
        return None;
    }
    if !all_digits(&s[0..4]) || !all_digits(&s[5..7]) || !all_digits(&s[8..10]) {
        return None;
    }
    let y: i32 = s[0..4].parse().ok()?;
    let m: u32 = s[5..7].parse().ok()?;
    let d: u32 = s[8..10].parse().ok()?;
    Some(NaiveDate::from_ymd_opt(y, m, d))
}

fn bool_of_str(s: &str) -> Option<bool> {
    match s.to_ascii_lowercase().trim() {
        "t" | "tr" | "tru" | "true" | "y" | "ye" | "yes" | "on" | "1" => Some(true),
        "f" | "fa" | "fal" | "fals" | "false" | "n" | "no" | "of" | "off" | "0" => Some(false),
        _ => None,
    }
}

fn from_text(b: &DataType, s: &str) -> Exp {
    use DataType::*;
    match b {
        Boolean => match bool_of_str(s) {
            Some(x) => Exp::V(Val::Bool(x)),
            None => Exp::Unrep,
        },
        _ if int_range(b).is_some() => match canonical_int(s) {
            Some(x) => int_val(&x, b),
            None => Exp::Any,
        },
        Float64 if canonical_float(s) => match s.parse::<f64>() {
            Ok(f) => Exp::V(Val::F64(f.to_bits())),
            Err(_) => Exp::Any,
        },
        Float32 if canonical_float(s) => match s.parse::<f32>() {
            Ok(f) => Exp::V(Val::F32(f.to_bits())),
            Err(_) => Exp::Any,
        },
        Float16 if canonical_float(s) => match (s.parse::<f32>(), s.parse::<f64>()) {
            (Ok(f), Ok(d)) => Exp::OneOf(vec![
                Val::F16(half::f16::from_f32(f).to_bits()),
                Val::F16(half::f16::from_f64(d).to_bits()),
            ]),
            _ => Exp::Any,
        },
        _ if is_decimal(b) => {
            let (bits, p, sc) = dec_params(b).unwrap();
            if sc < 0 {
                return Exp::Any;
            }
            match canonical_decimal(s, sc as u32) {
                Some(x) => dec_val(&x, bits, p),
                None => Exp::Any,
            }
        }
        Date32 => match canonical_date(s) {
            Some(Some(d)) => Exp::V(Val::Int(days_from_epoch(d))),
            Some(None) => Exp::Unrep,
            None => Exp::Any,
        },
        Date64 => match canonical_date(s) {
            Some(Some(d)) => Exp::V(Val::Int(days_from_epoch(d) * 86_400_000)),
            Some(None) => Exp::Unrep,
            None => Exp::Any,
        },
        Timestamp(u, _) => {
            // RFC 3339 with an explicit offset: the instant is unambiguous
            let bytes = s.as_bytes();
            if !s.is_ascii() || bytes.len() < 20 || bytes[10] != b'T' || &s[17..19] == "60" {
                return Exp::Any;
            }
            match DateTime::parse_from_rfc3339(s) {
                Ok(dt) => {
                    let total = dt.timestamp() as i128 * 1_000_000_000 + dt.timestamp_subsec_nanos() as i128;
                    i64_val(total.div_euclid(1_000_000_000 / unit_mult(u)))
                }
                Err(_) => Exp::Any,
            }
        }
        _ => Exp::Any,
    }
}

// ------------------------------------------------------------ leaf model

/// cast of one non-null, non-nested value
pub fn leaf(a: &DataType, b: &DataType, v: &Val) -> Exp {
    use DataType::*;
    if a == b {
        return Exp::V(v.clone());
    }
    if matches!(b, Null) {
        return Exp::V(Val::Null);
    }
    // decimal -> decimal
    if let (Some((_, _p1, s1)), Some((w2, p2, s2))) = (dec_params(a), dec_params(b)) {
        let Some(x) = big_of(v) else { return Exp::Any };
        let r = if s2 >= s1 {
            x * pow10((s2 as i32 - s1 as i32) as u32)
        } else {
            let d = pow10((s1 as i32 - s2 as i32) as u32);
            let q = &x / &d;
            let r = &x % &d;
            if r.abs() * 2 >= d {
                if x.is_negative() { q - 1 } else { q + 1 }
            } else {
                q
            }
        };
        return dec_val(&r, w2, p2);
    }
    // decimal -> other
    if let Some((w1, _, s1)) = dec_params(a) {
        if b.is_temporal() {
            return temporal(a, b, v).unwrap_or(Exp::Any);
        }
        let Some(x) = big_of(v) else { return Exp::Any };
        if int_range(b).is_some() {
            let r = if s1 < 0 {
                let r = x * pow10((-(s1 as i32)) as u32);
                if !fits_bits(&r, w1) {
                    return Exp::Unrep;
                }
                r
            } else {
                x / pow10(s1 as u32)
            };
            return int_val(&r, b);
        }
        if is_float(b) {
            let xf = match v {
                Val::Int(i) => *i as f64,
                Val::Big(bv) => ToPrimitive::to_f64(bv).unwrap_or(f64::NAN),
                _ => return Exp::Any,
            };
            let f = xf / 10f64.powi(s1 as i32);
            return Exp::V(float_val(b, f));
        }
        if is_string(b) {
            return Exp::NonNull;
        }
        return Exp::Any;
    }
    // other -> decimal
    if let Some((w2, p2, s2)) = dec_params(b) {
        if a.is_temporal() {
            return temporal(a, b, v).unwrap_or(Exp::Any);
        }
        if int_range(a).is_some() {
            let x = BigInt::from(v.int().unwrap());
            let r = if s2 >= 0 { x * pow10(s2 as u32) } else { x / pow10((-(s2 as i32)) as u32) };
            return dec_val(&r, w2, p2);
        }
        if is_float(a) {
            let f = float_of(v).unwrap();
            let r = (10f64.powi(s2 as i32) * f).round();
            if !r.is_finite() {
                return Exp::Unrep;
            }
            return match BigInt::from_f64(r) {
                Some(x) => dec_val(&x, w2, p2),
                None => Exp::Unrep,
            };
        }
        if is_string(a) {
            return from_text(b, v.as_str().unwrap_or(""));
        }
        return Exp::Any;
    }
    // -> Boolean
    if matches!(b, Boolean) {
        if int_range(a).is_some() {
            return Exp::V(Val::Bool(v.int().unwrap() != 0));
        }
        if is_float(a) {
            return Exp::V(Val::Bool(float_of(v).unwrap() != 0.0));
        }
        if is_string(a) {
            return from_text(b, v.as_str().unwrap_or(""));
        }
        return Exp::Any;
    }
    // Boolean ->
    if matches!(a, Boolean) {
        let t = v.as_bool().unwrap();
        if int_range(b).is_some() {
            return Exp::V(Val::Int(t as i128));
        }
        if is_float(b) {
            return Exp::V(float_val(b, if t { 1.0 } else { 0.0 }));
        }
        if is_string(b) {
            return Exp::V(Val::Str(if t { "true" } else { "false" }.to_string()));
        }
        return Exp::Any;
    }
    // string ->
    if is_string(a) {
        let s = v.as_str().unwrap_or("");
        if is_string(b) {
            return Exp::V(Val::Str(s.to_string()));
        }
        if is_binary(b) {
            return Exp::V(Val::Bytes(s.as_bytes().to_vec()));
        }
        return from_text(b, s);
    }
    // binary ->
    if is_binary(a) || matches!(a, FixedSizeBinary(_)) {
        let bytes = v.as_bytes().unwrap_or(&[]);
        if is_binary(b) {
            return Exp::V(Val::Bytes(bytes.to_vec()));
        }
        if is_string(b) {
            return match std::str::from_utf8(bytes) {
                Ok(s) => Exp::V(Val::Str(s.to_string())),
                Err(_) => Exp::Unrep,
            };
        }
        if let FixedSizeBinary(n) = b {
            return if bytes.len() == *n as usize { Exp::V(Val::Bytes(bytes.to_vec())) } else { Exp::Unrep };
        }
        return Exp::Any;
    }
    // -> string (formatting)
    if is_string(b) {
        if int_range(a).is_some() {
            return Exp::V(Val::Str(v.int().unwrap().to_string()));
        }
        return match a {
            Date32 => match naive_of(v.int().unwrap() * DAY_S, 0) {
                Some(_) => Exp::NonNull,
                None => Exp::Unrep,
            },
            Date64 => match ts_naive(v.int().unwrap(), &TimeUnit::Millisecond) {
                Some(_) => Exp::NonNull,
                None => Exp::Unrep,
            },
            Timestamp(u, tz) => match ts_local(v.int().unwrap(), u, tz) {
                Ok(Some(_)) => Exp::NonNull,
                Ok(None) => Exp::Unrep,
                Err(()) => Exp::Any,
            },
            _ => Exp::NonNull,
        };
    }
    // integer -> binary: native little-endian bytes
    if matches!(b, Binary | LargeBinary) && int_range(a).is_some() {
        let i = v.int().unwrap();
        let bytes = i.to_le_bytes()[..int_bytes(a)].to_vec();
        return Exp::V(Val::Bytes(bytes));
    }
    // numeric <-> numeric
    match (int_range(a).is_some(), is_float(a), int_range(b).is_some(), is_float(b)) {
        (true, _, true, _) => return int_val(&BigInt::from(v.int().unwrap()), b),
        (true, _, _, true) => return int_to_float(v.int().unwrap(), b),
        (_, true, true, _) => return float_to_int(float_of(v).unwrap(), b),
        (_, true, _, true) => return float_to_float(v, b),
        _ => {}
    }
    temporal(a, b, v).unwrap_or(Exp::Any)
}

// ------------------------------------------------------------ containers

fn is_nested(dt: &DataType) -> bool {
    dt.is_nested()
}

/// mirror of arrow-cast's union child selection (documented three passes)
pub fn resolve_union_child<'a>(fields: &'a UnionFields, to: &DataType, can_cast: &dyn Fn(&DataType, &DataType) -> bool) -> Option<(i8, &'a DataType)> {
    let fam = |a: &DataType, b: &DataType| -> bool {
        use DataType::*;
        matches!(
            (a, b),
            (Utf8 | LargeUtf8 | Utf8View, Utf8 | LargeUtf8 | Utf8View)
                | (Binary | LargeBinary | BinaryView, Binary | LargeBinary | BinaryView)
                | (Int8 | Int16 | Int32 | Int64, Int8 | Int16 | Int32 | Int64)
                | (UInt8 | UInt16 | UInt32 | UInt64, UInt8 | UInt16 | UInt32 | UInt64)
                | (Float16 | Float32 | Float64, Float16 | Float32 | Float64)
        )
    };
    if let Some((t, f)) = fields.iter().find(|(_, f)| f.data_type() == to) {
        return Some((t, f.data_type()));
    }
    if let Some((t, f)) = fields.iter().find(|(_, f)| fam(f.data_type(), to)) {
        return Some((t, f.data_type()));
    }
    if is_nested(to) {
        return None;
    }
    fields
        .iter()
        .find(|(_, f)| can_cast(f.data_type(), to))
        .map(|(t, f)| (t, f.data_type()))
}

fn wrap_one(inner: Exp, null_input: bool) -> Exp {
    if !null_input {
        return Exp::List(vec![inner]);
    }
    let mut alts = vec![Val::Null];
    match inner {
        Exp::V(x) => alts.push(Val::List(vec![x])),
        Exp::OneOf(xs) => alts.extend(xs.into_iter().map(|x| Val::List(vec![x]))),
        other => return Exp::List(vec![other]),
    }
    Exp::OneOf(alts)
}

fn elems(v: &Val) -> Option<&Vec<Val>> {
    match v {
        Val::List(x) => Some(x),
        _ => None,
    }
}

/// expectation for one logical value `v` of type `a` cast to `b`
pub fn ref_cast(a: &DataType, b: &DataType, v: &Val, can_cast: &dyn Fn(&DataType, &DataType) -> bool) -> Exp {
    use DataType::*;
    if a == b {
        return Exp::V(v.clone());
    }
    let rc = |x: &DataType, y: &DataType, w: &Val| ref_cast(x, y, w, can_cast);
    match (a, b) {
        (Null, _) => return Exp::V(Val::Null),
        // order of arrow-cast's dispatch (run-end targets come before unions)
        (RunEndEncoded(_, av), _) => return rc(av.data_type(), b, v),
        (_, RunEndEncoded(_, bv)) => return rc(a, bv.data_type(), v),
        (Union(fields, _), _) => {
            let Some((tid, cdt)) = resolve_union_child(fields, b, can_cast) else { return Exp::Any };
            return match v {
                Val::Union(t, inner) if *t == tid => rc(cdt, b, inner),
                Val::Union(_, _) => Exp::V(Val::Null),
                _ => Exp::Any,
            };
        }
        (_, Union(_, _)) => return Exp::Any,
        (Dictionary(_, av), Dictionary(_, bv)) => return rc(av, bv, v),
        (Dictionary(_, av), _) => return rc(av, b, v),
        (_, Dictionary(_, bv)) => return rc(a, bv, v),
        _ => {}
    }
    let map_list = |ca: &DataType, cb: &DataType, v: &Val| -> Exp {
        match elems(v) {
            Some(xs) => Exp::List(xs.iter().map(|x| rc(ca, cb, x)).collect()),
            None => Exp::Any,
        }
    };
    let la = is_list_family(a);
    let lb = is_list_family(b);
    match (a, b) {
        _ if la && lb => {
            if v.is_null() {
                return Exp::V(Val::Null);
            }
            return map_list(list_child(a).unwrap(), list_child(b).unwrap(), v);
        }
        _ if la && is_string(b) => {
            return if v.is_null() { Exp::V(Val::Null) } else { Exp::NonNull };
        }
        (FixedSizeList(fa, _), _) if lb => {
            if v.is_null() {
                return Exp::V(Val::Null);
            }
            return map_list(fa.data_type(), list_child(b).unwrap(), v);
        }
        (_, FixedSizeList(fb, n)) if la => {
            if v.is_null() {
                return Exp::V(Val::Null);
            }
            return match elems(v) {
                Some(xs) if xs.len() == *n as usize => map_list(list_child(a).unwrap(), fb.data_type(), v),
                Some(_) => Exp::Unrep,
                None => Exp::Any,
            };
        }
        (FixedSizeList(fa, n), FixedSizeList(fb, m)) if n == m => {
            if v.is_null() {
                return Exp::V(Val::Null);
            }
            return map_list(fa.data_type(), fb.data_type(), v);
        }
        // not asserted: whether a null scalar becomes a null list or [null]
        _ if lb => return wrap_one(rc(a, list_child(b).unwrap(), v), v.is_null()),
        (_, FixedSizeList(fb, 1)) => return wrap_one(rc(a, fb.data_type(), v), v.is_null()),
        (FixedSizeList(fa, 1), _) => {
            if v.is_null() {
                return Exp::V(Val::Null);
            }
            return match elems(v) {
                Some(xs) if xs.len() == 1 => rc(fa.data_type(), b, &xs[0]),
                _ => Exp::Any,
            };
        }
        (Map(ea, _), Map(eb, _)) => {
            if v.is_null() {
                return Exp::V(Val::Null);
            }
            let (Struct(fa), Struct(fb)) = (ea.data_type(), eb.data_type()) else { return Exp::Any };
            if fa.len() != 2 || fb.len() != 2 {
                return Exp::Any;
            }
            return match elems(v) {
                Some(xs) => Exp::List(
                    xs.iter()
                        .map(|e| match e {
                            Val::Struct(kv) if kv.len() == 2 => Exp::Struct(vec![
                                rc(fa[0].data_type(), fb[0].data_type(), &kv[0]),
                                rc(fa[1].data_type(), fb[1].data_type(), &kv[1]),
                            ]),
                            _ => Exp::Any,
                        })
                        .collect(),
                ),
                None => Exp::Any,
            };
        }
        (Struct(fa), Struct(fb)) => {
            if v.is_null() {
                return Exp::V(Val::Null);
            }
            let Val::Struct(xs) = v else { return Exp::Any };
            if fa.len() != fb.len() || xs.len() != fa.len() {
                return Exp::Any;
            }
            let same_order = fa.iter().zip(fb.iter()).all(|(x, y)| x.name() == y.name());
            let by_name = !same_order && fb.iter().all(|t| fa.iter().any(|f| f.name() == t.name()));
            return Exp::Struct(
                fb.iter()
                    .enumerate()
                    .map(|(j, t)| {
                        let i = if by_name { fa.iter().position(|f| f.name() == t.name()).unwrap() } else { j };
                        rc(fa[i].data_type(), t.data_type(), &xs[i])
                    })
                    .collect(),
            );
        }
        _ => {}
    }
    if v.is_null() {
        return Exp::V(Val::Null);
    }
    if is_nested(a) || is_nested(b) {
        return Exp::Any;
    }
    leaf(a, b, v)
}

// ------------------------------------------------------------ lossless pairs

/// `cast(cast(x, b), a) == x` must hold for every row the first cast kept
pub fn lossless(a: &DataType, b: &DataType) -> bool {
    use DataType::*;
    if a == b {
        return true;
    }
    match (a, b) {
        (Null, _) | (_, Null) => return false,
        (Union(_, _), _) | (_, Union(_, _)) => return false,
        (Dictionary(_, x), Dictionary(_, y)) => return lossless(x, y),
        (Dictionary(_, x), y) => return lossless(x, y),
        (x, Dictionary(_, y)) => return lossless(x, y),
        (RunEndEncoded(_, x), RunEndEncoded(_, y)) => return lossless(x.data_type(), y.data_type()),
        (RunEndEncoded(_, x), y) => return lossless(x.data_type(), y),
        (x, RunEndEncoded(_, y)) => return lossless(x, y.data_type()),
        _ => {}
    }
    if is_list_family(a) && is_list_family(b) {
        return lossless(list_child(a).unwrap(), list_child(b).unwrap());
    }
    match (a, b) {
        (FixedSizeList(x, _), _) if is_list_family(b) => return lossless(x.data_type(), list_child(b).unwrap()),
        (FixedSizeList(x, n), FixedSizeList(y, m)) => return n == m && lossless(x.data_type(), y.data_type()),
        (Struct(fa), Struct(fb)) => {
            return fa.len() == fb.len()
                && fa.iter().zip(fb.iter()).all(|(x, y)| x.name() == y.name() && lossless(x.data_type(), y.data_type()));
        }
        (Map(ea, oa), Map(eb, ob)) => return oa == ob && lossless(ea.data_type(), eb.data_type()),
        _ => {}
    }
    if a.is_nested() || b.is_nested() {
        return false;
    }
    let ia = int_range(a);
    let ib = int_range(b);
    let int_bits = |dt: &DataType| -> u32 {
        match dt {
            Int8 => 7,
            UInt8 => 8,
            Int16 => 15,
            UInt16 => 16,
            Int32 => 31,
            UInt32 => 32,
            Int64 => 63,
            _ => 64,
        }
    };
    match (a, b) {
        _ if ia.is_some() && ib.is_some() => true,
        _ if ia.is_some() && is_float(b) => {
            let mant = match b {
                Float16 => 11,
                Float32 => 24,
                _ => 53,
            };
            int_bits(a) <= mant
        }
        (Float16, Float32 | Float64) | (Float32, Float64) => true,
        (Boolean, _) => ib.is_some() || is_float(b) || is_string(b),
        _ if ia.is_some() && is_string(b) => true,
        _ if is_float(a) && is_string(b) => true,
        _ if ia.is_some() && is_decimal(b) => dec_params(b).unwrap().2 >= 0,
        _ if is_decimal(a) && is_decimal(b) => dec_params(b).unwrap().2 >= dec_params(a).unwrap().2,
        _ if is_decimal(a) && is_string(b) => dec_params(a).unwrap().2 >= 0,
        _ if (is_string(a) || is_binary(a)) && (is_string(b) || is_binary(b)) => true,
        (FixedSizeBinary(_), _) if is_binary(b) => true,
        (_, FixedSizeBinary(_)) if is_binary(a) => true,
        (Date32, Date64 | Int32 | Int64) | (Date64, Int64) => true,
        (Date32, Timestamp(_, None)) => true,
        (Int32, Date32 | Time32(_)) | (Int64, Date64 | Time64(_)) => true,
        (Time32(_) | Time64(_), Int32 | Int64) => !(matches!(a, Time64(_)) && matches!(b, Int32)),
        (Time32(u1) | Time64(u1), Time32(u2) | Time64(u2)) => unit_mult(u2) >= unit_mult(u1),
        (Timestamp(u1, t1), Timestamp(u2, t2)) => unit_mult(u2) >= unit_mult(u1) && t1.is_some() == t2.is_some(),
        (Timestamp(_, _) | Duration(_), Int64) | (Int64, Timestamp(_, _) | Duration(_)) => true,
        (Duration(u1), Duration(u2)) => unit_mult(u2) >= unit_mult(u1),
        (Duration(_), Interval(IntervalUnit::MonthDayNano)) => true,
        _ => false,
    }
}

#[allow(dead_code)]
pub fn zero_big() -> BigInt {
    BigInt::zero()
}

/// values inside the documented Arrow value domain (Time32/Time64 within one
/// day, Date64 whole days); nothing is asserted outside it
pub fn in_domain(dt: &DataType, v: &Val) -> bool {
    use DataType::*;
    match (dt, v) {
        (_, Val::Null) => true,
        (Time32(u) | Time64(u), Val::Int(x)) => *x >= 0 && *x < 86_400 * unit_mult(u),
        (Date64, Val::Int(x)) => x % 86_400_000 == 0,
        (Dictionary(_, c), _) => in_domain(c, v),
        (RunEndEncoded(_, c), _) => in_domain(c.data_type(), v),
        (List(c) | LargeList(c) | ListView(c) | LargeListView(c) | FixedSizeList(c, _), Val::List(xs)) => {
            xs.iter().all(|x| in_domain(c.data_type(), x))
        }
        (Struct(fs), Val::Struct(xs)) => fs.iter().zip(xs).all(|(f, x)| in_domain(f.data_type(), x)),
        (Map(e, _), Val::List(xs)) => xs.iter().all(|x| in_domain(e.data_type(), x)),
        (Union(fs, _), Val::Union(t, x)) => fs.iter().find(|(i, _)| i == t).map(|(_, f)| in_domain(f.data_type(), x)).unwrap_or(true),
        _ => true,
    }
}
