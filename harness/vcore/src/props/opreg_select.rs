//! Registry families "select" (arrow-select), "cast" (arrow-cast), "row" (arrow-row) and
//! "ord" (arrow-ord sort / lexsort / rank / partition).

use super::*;
use arrow_array::cast::AsArray;
use arrow_cast::{CastOptions, can_cast_types, cast_with_options};
use arrow_ord::partition::partition;
use arrow_ord::rank::rank;
use arrow_ord::sort::{SortColumn, lexsort, lexsort_to_indices, sort, sort_limit, sort_to_indices};
use arrow_row::{RowConverter, SortField};
use arrow_schema::{Field, Schema, SortOptions};
use arrow_select::coalesce::BatchCoalescer;
use arrow_select::concat::{concat, concat_batches};
use arrow_select::dictionary::garbage_collect_any_dictionary;
use arrow_select::filter::{FilterBuilder, filter, filter_record_batch};
use arrow_select::interleave::{interleave, interleave_record_batch};
use arrow_select::merge::merge;
use arrow_select::nullif::nullif;
use arrow_select::take::{TakeOptions, take, take_record_batch};
use arrow_select::union_extract::union_extract;
use arrow_select::window::shift;
use arrow_select::zip::zip;

fn sort_opts(rng: &mut Rng) -> Option<SortOptions> {
    if rng.chance(1, 6) {
        None
    } else {
        Some(SortOptions { descending: rng.bool(), nulls_first: rng.bool() })
    }
}

fn so_name(o: &Option<SortOptions>) -> String {
    match o {
        None => "default".into(),
        Some(o) => format!("{}{}", if o.descending { "desc" } else { "asc" }, if o.nulls_first { ",nf" } else { ",nl" }),
    }
}

fn has_union(dt: &DataType) -> bool {
    contains_type(dt, &|d| matches!(d, DataType::Union(_, _)))
}

/// arrays produced by sorts: rows that compare Equal need not be logically identical when a
/// union slot with a null child is involved (it sorts as null whatever its type id)
fn sorted_out(a: ArrayRef, exact: bool) -> Out {
    if exact { Out::Arr(a) } else { Out::Side(a) }
}

fn batch_of(cols: &[(&DataType, &ArrayRef)]) -> Result<RecordBatch, ArrowError> {
    let fields: Vec<Field> = cols.iter().enumerate().map(|(i, (dt, _))| Field::new(format!("c{i}"), (*dt).clone(), true)).collect();
    RecordBatch::try_new_with_options(
        Arc::new(Schema::new(fields)),
        cols.iter().map(|(_, a)| (*a).clone()).collect(),
        &RecordBatchOptions::new().with_row_count(Some(cols.first().map(|c| c.1.len()).unwrap_or(0))),
    )
}

/// a second column for batch ops / lexsort: a random flat-ish type
fn side_col(rng: &mut Rng, n: usize) -> Col {
    let cfg = TypeCfg::all().depth(1);
    let mut dt = gens::gen_type(rng, &cfg);
    if small_dict(&dt) && n > 20 {
        dt = DataType::Int32;
    }
    let v = gen_column(rng, &dt, n, true, &cfg);
    (dt, v)
}

fn cast_target(rng: &mut Rng, dt: &DataType) -> Option<DataType> {
    let grid = crate::props::c13_grid::grid_types();
    for _ in 0..8 {
        let t = if rng.bool() { crate::props::c13_grid::related_type(rng, dt, 2) } else { rng.pick(&grid).clone() };
        if can_cast_types(dt, &t) {
            return Some(t);
        }
    }
    None
}

pub fn plan(def: &OpDef, rng: &mut Rng, dt: &DataType, vals: &[Val]) -> Option<P> {
    use DataType::*;
    let n = vals.len();
    let cfg = TypeCfg::all();
    match def.name {
        "filter" | "filter.optimized" => {
            let nm = rng.chance(1, 3);
            let mask = bool_col(rng, n, nm);
            let opt = def.name == "filter.optimized";
            p(String::new(), if mask.iter().any(|v| v.is_null()) { "nullmask" } else { "mask" }, vec![(Boolean, mask)], vec![], move |x, a, _c| {
                let m = a[0].as_boolean();
                if opt {
                    let pr = FilterBuilder::new(m).optimize().build();
                    one_ref(pr.filter(x.as_ref())?)
                } else {
                    one_ref(filter(x.as_ref(), m)?)
                }
            })
        }
        "take" | "take.checked" => {
            let idt = index_type(rng);
            let nullable = rng.chance(1, 3);
            let idx = index_col(rng, n, &idt, nullable);
            let checked = def.name == "take.checked";
            p(format!("indices {idt}"), &format!("{}{}", fam(&idt), if nullable { ",nulls" } else { "" }), vec![], vec![(idt, idx)], move |x, _a, c| {
                let o = if checked { Some(TakeOptions { check_bounds: true }) } else { None };
                one_ref(take(x.as_ref(), c[0].as_ref(), o)?)
            })
        }
        "concat" => {
            if small_dict(dt) && n > 12 {
                return None;
            }
            let k = 1 + rng.below(3);
            let pos = rng.below(k + 1);
            let consts: Vec<Col> = (0..k)
                .map(|_| {
                    let m = *rng.pick(&[0usize, 0, 1, 3, 9, 17]);
                    let m = if small_dict(dt) { m.min(9) } else { m };
                    (dt.clone(), gen_column(rng, dt, m, true, &cfg))
                })
                .collect();
            p(format!("{} parts, primary at {pos}", k + 1), &format!("k{}", k + 1), vec![], consts, move |x, _a, c| {
                let mut parts: Vec<&dyn Array> = c.iter().map(|a| a.as_ref()).collect();
                parts.insert(pos, x.as_ref());
                one_ref(concat(&parts)?)
            })
        }
        "interleave" => {
            if small_dict(dt) && n > 12 {
                return None;
            }
            let k = 1 + rng.below(2);
            let mut lens = vec![n];
            let consts: Vec<Col> = (0..k)
                .map(|_| {
                    let m = *rng.pick(&[0usize, 1, 3, 9, 17]);
                    let m = if small_dict(dt) { m.min(9) } else { m };
                    lens.push(m);
                    (dt.clone(), gen_column(rng, dt, m, true, &cfg))
                })
                .collect();
            let nonempty: Vec<usize> = (0..lens.len()).filter(|i| lens[*i] > 0).collect();
            let m = if nonempty.is_empty() { 0 } else { *rng.pick(&[0usize, 1, 5, 20, 70]) };
            let idx: Vec<(usize, usize)> = (0..m)
                .map(|_| {
                    let a = *rng.pick(&nonempty);
                    (a, rng.below(lens[a]))
                })
                .collect();
            p(format!("{} arrays, indices {:?}", k + 1, idx), &format!("k{}", k + 1), vec![], consts, move |x, _a, c| {
                let mut parts: Vec<&dyn Array> = vec![x.as_ref()];
                parts.extend(c.iter().map(|a| a.as_ref()));
                one_ref(interleave(&parts, &idx)?)
            })
        }
        "zip" => {
            let nm = rng.chance(1, 3);
            let mask = bool_col(rng, n, nm);
            let mode = rng.below(4);
            let other = companion(rng, dt, vals, dt, true);
            let sv = vec![pick_value(rng, dt, vals)];
            let sv = if rng.chance(1, 5) && gens::can_be_null(dt) { vec![Val::Null] } else { sv };
            let name = ["aa", "as", "sa", "ss"][mode];
            let sv2 = vec![pick_value(rng, dt, vals)];
            p(format!("mode {name}"), name, vec![(Boolean, mask), (dt.clone(), other)], vec![(dt.clone(), sv), (dt.clone(), sv2)], move |x, a, c| {
                let m = a[0].as_boolean();
                let s = Scalar::new(c[0].clone());
                let r = match mode {
                    0 => zip(m, x, &a[1])?,
                    1 => zip(m, x, &s)?,
                    2 => zip(m, &s, x)?,
                    _ => zip(m, &s, &Scalar::new(c[1].clone()))?,
                };
                one_ref(r)
            })
        }
        "merge" => {
            let m = *rng.pick(&[0usize, 1, 4, 17]);
            let m = if small_dict(dt) { m.min(4) } else { m };
            let falsy = gen_column(rng, dt, m, true, &cfg);
            // mask with exactly n true and m false positions
            let mut bits: Vec<bool> = std::iter::repeat_n(true, n).chain(std::iter::repeat_n(false, m)).collect();
            rng.shuffle(&mut bits);
            let mask: Vec<Val> = bits.into_iter().map(Val::Bool).collect();
            p(format!("{m} falsy rows"), "-", vec![], vec![(Boolean, mask), (dt.clone(), falsy)], move |x, _a, c| one_ref(merge(c[0].as_boolean(), x, &c[1])?))
        }
        "nullif" => {
            let nm = rng.chance(1, 3);
            let mask = bool_col(rng, n, nm);
            p(String::new(), if mask.iter().any(|v| v.is_null()) { "nullmask" } else { "mask" }, vec![(Boolean, mask)], vec![], move |x, a, _c| one_ref(nullif(x.as_ref(), a[0].as_boolean())?))
        }
        "shift" => {
            let k = *rng.pick(&[0i64, 1, -1, 2, -3, 7, -8, 9, 1000, -1000, i64::MAX, i64::MIN]);
            let k = if rng.bool() { k } else { rng.range(-(n as i64) - 1, n as i64 + 1) };
            p(format!("offset {k}"), if k == 0 { "zero" } else if k > 0 { "pos" } else { "neg" }, vec![], vec![], move |x, _a, _c| one_ref(shift(x.as_ref(), k)?))
        }
        "gc_dictionary" => match dt {
            Dictionary(_, _) => p(String::new(), "-", vec![], vec![], |x, _a, _c| one_ref(garbage_collect_any_dictionary(x.as_any_dictionary())?)),
            _ => None,
        },
        "union_extract" => match dt {
            Union(fs, _) => {
                let names: Vec<String> = fs.iter().map(|(_, f)| f.name().clone()).collect();
                if names.is_empty() {
                    return None;
                }
                let name = rng.pick(&names).clone();
                p(format!("target {name}"), "-", vec![], vec![], move |x, _a, _c| one_ref(union_extract(x.as_union(), &name)?))
            }
            _ => None,
        },
        "coalesce" => {
            if small_dict(dt) && n > 12 {
                return None;
            }
            let side = side_col(rng, n);
            let target = *rng.pick(&[1usize, 2, 3, 8, 16, 1024]);
            let mask = bool_col(rng, n, false);
            let idt = UInt32;
            let idx = index_col(rng, n, &idt, false);
            let dt0 = dt.clone();
            let dt1 = side.0.clone();
            p(format!("target {target}"), &format!("t{}", target.min(17)), vec![side, (Boolean, mask)], vec![(idt, idx)], move |x, a, c| {
                let b = batch_of(&[(&dt0, x), (&dt1, &a[0])])?;
                let mut co = BatchCoalescer::new(b.schema(), target);
                co.push_batch(b.clone())?;
                co.push_batch_with_filter(b.clone(), a[1].as_boolean())?;
                co.push_batch_with_indices(b.slice(0, b.num_rows()), c[0].as_ref())?;
                co.finish_buffered_batch()?;
                let mut out = Vec::new();
                while let Some(rb) = co.next_completed_batch() {
                    out.push(Out::Batch(rb));
                }
                Ok(out)
            })
        }
        "concat_batches" | "filter_record_batch" | "take_record_batch" | "interleave_record_batch" => {
            if small_dict(dt) && n > 12 {
                return None;
            }
            let side = side_col(rng, n);
            let nm = rng.chance(1, 3);
            let mask = bool_col(rng, n, nm);
            let idt = index_type(rng);
            let ni = rng.chance(1, 3);
            let idx = index_col(rng, n, &idt, ni);
            let cuts = (rng.below(n + 1), rng.below(n + 1));
            let (c0, c1) = (cuts.0.min(cuts.1), cuts.0.max(cuts.1));
            let pairs: Vec<(usize, usize)> = if n == 0 { vec![] } else { (0..rng.below(40)).map(|_| (rng.below(2), rng.below(n))).collect() };
            let dt0 = dt.clone();
            let dt1 = side.0.clone();
            let name = def.name;
            p(format!("cuts {c0},{c1}"), "-", vec![side, (Boolean, mask)], vec![(idt, idx)], move |x, a, c| {
                let b = batch_of(&[(&dt0, x), (&dt1, &a[0])])?;
                let r = match name {
                    "concat_batches" => {
                        let parts = [b.slice(c1, n - c1), b.slice(0, c0), b.slice(c0, c1 - c0)];
                        concat_batches(&b.schema(), parts.iter())?
                    }
                    "filter_record_batch" => filter_record_batch(&b, a[1].as_boolean())?,
                    "take_record_batch" => take_record_batch(&b, c[0].as_ref())?,
                    _ => {
                        let b2 = b.slice(0, n);
                        interleave_record_batch(&[&b, &b2], &pairs)?
                    }
                };
                Ok(vec![Out::Batch(r)])
            })
        }
        "cast" | "cast.unsafe" => {
            let to = cast_target(rng, dt)?;
            let safe = def.name == "cast";
            let from_union = if matches!(dt, Union(_, _)) { "from-union " } else { "" };
            p(format!("{from_union}to {to} safe={safe}"), &format!("->{}", fam(&to)), vec![], vec![], move |x, _a, _c| {
                let o = CastOptions { safe, ..Default::default() };
                one_ref(cast_with_options(x.as_ref(), &to, &o)?)
            })
        }
        "row.convert" => {
            let nside = rng.below(3);
            let mut aux: Vec<Col> = Vec::new();
            for _ in 0..nside {
                aux.push(side_col(rng, n));
            }
            let mut fields = vec![SortField::new_with_options(dt.clone(), sort_opts(rng).unwrap_or_default())];
            for (t, _) in &aux {
                fields.push(SortField::new_with_options(t.clone(), sort_opts(rng).unwrap_or_default()));
            }
            if !RowConverter::supports_fields(&fields) {
                return None;
            }
            p(format!("{} columns", nside + 1), &format!("c{}", nside + 1), aux, vec![], move |x, a, _c| {
                let conv = RowConverter::new(fields.clone())?;
                let mut cols = vec![x.clone()];
                cols.extend(a.iter().cloned());
                let rows = conv.convert_columns(&cols)?;
                let back = conv.convert_rows(&rows)?;
                let mut out: Vec<Out> = back.into_iter().map(Out::Arr).collect();
                out.push(Out::Arr(Arc::new(rows.try_into_binary()?)));
                Ok(out)
            })
        }
        "sort" | "sort_limit" | "sort_to_indices" => {
            let o = sort_opts(rng);
            let limit = if def.name == "sort" { None } else { Some(*rng.pick(&[0usize, 1, 2, n / 2, n, n + 1])) };
            let exact = !has_union(dt);
            let name = def.name;
            p(format!("{} limit {limit:?}", so_name(&o)), &so_name(&o), vec![], vec![], move |x, _a, _c| match name {
                "sort" => Ok(vec![sorted_out(sort(x.as_ref(), o)?, exact)]),
                "sort_limit" => Ok(vec![sorted_out(sort_limit(x.as_ref(), o, limit)?, exact)]),
                _ => {
                    let idx = sort_to_indices(x.as_ref(), o, limit)?;
                    let taken = take(x.as_ref(), &idx, None)?;
                    Ok(vec![Out::Side(Arc::new(idx)), sorted_out(taken, exact)])
                }
            })
        }
        "lexsort" | "lexsort_to_indices" => {
            let nside = 1 + rng.below(2);
            let mut aux: Vec<Col> = Vec::new();
            for _ in 0..nside {
                // low-cardinality side columns so that later columns matter
                let (t, mut v) = side_col(rng, n);
                if !v.is_empty() {
                    let pool: Vec<Val> = (0..1 + rng.below(3)).map(|_| rng.pick(&v).clone()).collect();
                    if rng.bool() {
                        for x in v.iter_mut() {
                            *x = rng.pick(&pool).clone();
                        }
                    }
                }
                aux.push((t, v));
            }
            let primary_pos = rng.below(nside + 1);
            let opts: Vec<Option<SortOptions>> = (0..nside + 1).map(|_| sort_opts(rng)).collect();
            let limit = if rng.bool() { None } else { Some(*rng.pick(&[0usize, 1, n / 2, n, n + 1])) };
            let exact = !has_union(dt) && !aux.iter().any(|c| has_union(&c.0));
            let to_idx = def.name == "lexsort_to_indices";
            p(format!("{} columns, primary at {primary_pos}, limit {limit:?}", nside + 1), &format!("c{}", nside + 1), aux, vec![], move |x, a, _c| {
                let mut cols: Vec<ArrayRef> = a.to_vec();
                cols.insert(primary_pos, x.clone());
                let sc: Vec<SortColumn> = cols.iter().zip(&opts).map(|(c, o)| SortColumn { values: c.clone(), options: *o }).collect();
                if to_idx {
                    let idx = lexsort_to_indices(&sc, limit)?;
                    let mut out = vec![Out::Side(Arc::new(idx.clone()) as ArrayRef)];
                    for c in &cols {
                        out.push(sorted_out(take(c.as_ref(), &idx, None)?, exact));
                    }
                    Ok(out)
                } else {
                    Ok(lexsort(&sc, limit)?.into_iter().map(|c| sorted_out(c, exact)).collect())
                }
            })
        }
        "rank" => {
            let o = sort_opts(rng);
            p(so_name(&o), &so_name(&o), vec![], vec![], move |x, _a, _c| one(UInt32Array::from(rank(x.as_ref(), o)?)))
        }
        "partition" => {
            let with_side = rng.bool();
            let aux = if with_side { vec![side_col(rng, n)] } else { vec![] };
            p(String::new(), if with_side { "c2" } else { "c1" }, aux, vec![], move |x, a, _c| {
                let mut cols = vec![x.clone()];
                cols.extend(a.iter().cloned());
                let pt = partition(&cols)?;
                Ok(vec![Out::Text(format!("{:?}", pt.ranges()))])
            })
        }
        other => panic!("model: unknown select op {other}"),
    }
}

