//! C20: string predicates and functions follow character-level Unicode semantics.
//!
//! Events: outputs of like/nlike/ilike/nilike, starts_with, ends_with, contains,
//! regexp_is_match(_scalar), substring, substring_by_char, length, bit_length,
//! concat_elements_* on Utf8 / LargeUtf8 / Utf8View / dictionary haystacks with
//! array or scalar patterns.
//!
//! Oracle: a char-level reference model that shares no code with arrow-string:
//!  * LIKE: the pattern is tokenised (`\x` = literal x, trailing `\` = literal
//!    backslash, `%` = any sequence, `_` = exactly one scalar value) and matched
//!    by a position-set simulation over `char`s (cross-checked against a literal
//!    backtracking matcher); case-insensitive character equality is whatever the
//!    regex engine says for the single-character pattern `(?i)^c$` (memoised).
//!  * starts_with / ends_with / contains: `str` definitions.
//!  * regexp_is_match: the regex crate applied row by row, flags applied through
//!    `RegexBuilder` (not through the `(?flags)` prefix arrow builds).
//!  * substring: documented byte rule + char-boundary error; substring_by_char:
//!    `chars()` indexing.
//!  * length = bytes, bit_length = 8 * bytes, concat = `format!("{l}{r}")`, null
//!    if any input is null.
//!  * every returned array goes through the independent validator (valid UTF-8).
//!
//! Sections (interleaved in rounds so that a truncated run covers all of them):
//!  * like-exh   every LIKE pattern of length <= 4 (thorough: <= 5) over {% _ \ a A é .}
//!               as a scalar pattern against three fixed universes of haystacks: all
//!               strings of length <= 4 over {a A é É \n % _ \ . ǅ U+0301} (16 105), the
//!               ASCII-only ones (2 801, drives the ASCII fast paths) and 17 689 strings
//!               of >= 13 bytes (out-of-line views), each in Utf8 / LargeUtf8 / Utf8View /
//!               Dict<Utf8> / Dict<Utf8View>, 7 ops; plus a stratified array-pattern form.
//!  * like-rand  longer random haystacks / derived patterns incl. regex metacharacters and
//!               case-varying characters; array x array, array x scalar, scalar x array,
//!               scalar x scalar; dictionaries on either side; null rows and null scalars.
//!  * regex      regexp_is_match (array patterns, optional flags array) and
//!               regexp_is_match_scalar; valid and uncompilable patterns.
//!  * substr     substring on the four encodings, substring_by_char on Utf8/LargeUtf8;
//!               start/length incl. negative, beyond the string, at and beyond i32/i64.
//!  * len-concat length, bit_length on the four encodings; concat_elements_{utf8,
//!               utf8_many, string_view_array, dyn}.
//! Observed-case floor: a quick shard that ends with fewer than 500 evaluations or
//! without a single completed `like-exh` pattern should be treated as inconclusive.
//!
//! not asserted:
//!  * the text of error messages; which row an error is attributed to;
//!  * physical layout of outputs (null buffer present or not, view buffers,
//!    dictionary key type / dictionary contents of `substring`/`length` outputs);
//!  * regexp_is_match rows whose *flag* is null (documentation is silent; the
//!    value pattern-without-flags is what the code does, a null result would be
//!    just as defensible), empty or unknown flag strings;
//!  * eq_ignore_ascii_case, binary (non-UTF-8) variants, regexp_match captures;
//!  * behaviour on arrays of unequal length (documented Err, checked only as
//!    "does not panic" is NOT part of this property either).

use crate::build::{build, realise};
use crate::extract::extract;
use crate::mon::{Ctx, Outcome, PanicInfo, run_op, strip_digits};
use crate::rng::{Rng, hash_str, mix};
use crate::val::{Val, dump_vals};
use crate::validate::check_array;
use arrow_array::cast::AsArray;
use arrow_array::*;
use arrow_schema::{ArrowError, DataType};
use arrow_string::concat_elements::{
    concat_elements_dyn, concat_elements_string_view_array, concat_elements_utf8,
    concat_elements_utf8_many,
};
use arrow_string::length::{bit_length, length};
use arrow_string::like;
use arrow_string::regexp::{regexp_is_match, regexp_is_match_scalar};
use arrow_string::substring::{substring, substring_by_char};
use regex::{Regex, RegexBuilder};
use std::collections::HashMap;
use std::hash::{BuildHasherDefault, Hasher};

const P: &str = "C20";

// ===================================================================== model

#[derive(Clone, Copy, PartialEq, Eq, Debug)]
enum Tok {
    Lit(char),
    One,
    Many,
}

/// LIKE pattern -> tokens, by definition.
fn parse_like(p: &str) -> Vec<Tok> {
    let mut out = Vec::new();
    let mut it = p.chars();
    while let Some(c) = it.next() {
        match c {
            '\\' => match it.next() {
                Some(n) => out.push(Tok::Lit(n)),
                None => out.push(Tok::Lit('\\')),
            },
            '%' => out.push(Tok::Many),
            '_' => out.push(Tok::One),
            c => out.push(Tok::Lit(c)),
        }
    }
    out
}

#[derive(Default)]
struct PairHasher(u64);
impl Hasher for PairHasher {
    fn finish(&self) -> u64 {
        self.0
    }
    fn write(&mut self, b: &[u8]) {
        for x in b {
            self.0 = (self.0 ^ *x as u64).wrapping_mul(0x0000_0100_0000_01B3);
        }
    }
    fn write_u32(&mut self, v: u32) {
        self.0 = (self.0.rotate_left(29) ^ v as u64).wrapping_mul(0x9E37_79B9_7F4A_7C15);
    }
}

/// Oracle power check: `C20_BREAK=n` deliberately breaks one part of the *model*
/// (never set in real runs): 1 = case folding by `to_lowercase`, 2 = `_` also
/// matches the empty string, 3 = contains("") is false, 4 = char substring does
/// not clamp a negative start, 5 = regex flag `s` ignored, 6 = byte length
/// replaced by char count, 7 = concat of a null treats it as "".
fn broken() -> u32 {
    static B: std::sync::OnceLock<u32> = std::sync::OnceLock::new();
    *B.get_or_init(|| {
        std::env::var("C20_BREAK")
            .ok()
            .and_then(|v| v.parse().ok())
            .unwrap_or(0)
    })
}

/// Case-insensitive single character equality as decided by the regex engine.
#[derive(Default)]
struct Fold {
    pair: HashMap<(char, char), bool, BuildHasherDefault<PairHasher>>,
    re: HashMap<char, Regex>,
    /// deliberately broken model (oracle power check): `--section` independent,
    /// switched by env C20_BREAK
    broken: u32,
}

impl Fold {
    fn new() -> Fold {
        Fold {
            broken: broken(),
            ..Default::default()
        }
    }
    fn ieq(&mut self, p: char, h: char) -> bool {
        if self.broken == 1 {
            return p.to_lowercase().eq(h.to_lowercase());
        }
        if let Some(b) = self.pair.get(&(p, h)) {
            return *b;
        }
        let re = self.re.entry(p).or_insert_with(|| {
            let mut s = String::new();
            s.push(p);
            Regex::new(&format!("(?i)^{}$", regex::escape(&s))).expect("model: fold regex")
        });
        let mut buf = [0u8; 4];
        let b = re.is_match(h.encode_utf8(&mut buf));
        self.pair.insert((p, h), b);
        b
    }
}

fn mask_upto(n: usize) -> u128 {
    if n >= 127 { u128::MAX } else { (1u128 << (n + 1)) - 1 }
}

/// Position-set matcher: `cur` holds every haystack position that the tokens
/// consumed so far can end at.
fn like_match(toks: &[Tok], s: &[char], ci: bool, fold: &mut Fold) -> bool {
    let n = s.len();
    assert!(n <= 126, "model: haystack too long for the matcher");
    let all = mask_upto(n);
    let mut cur: u128 = 1;
    for t in toks {
        if cur == 0 {
            return false;
        }
        cur = match *t {
            Tok::Many => {
                let low = cur.trailing_zeros();
                all & !((1u128 << low) - 1)
            }
            Tok::One => {
                if fold.broken == 2 {
                    // broken model: `_` also matches the empty string
                    (cur | (cur << 1)) & all
                } else {
                    (cur << 1) & all
                }
            }
            Tok::Lit(c) => {
                let mut nx = 0u128;
                let mut rest = cur & (all >> 1);
                while rest != 0 {
                    let j = rest.trailing_zeros() as usize;
                    rest &= rest - 1;
                    let eq = if ci { c == s[j] || fold.ieq(c, s[j]) } else { c == s[j] };
                    if eq {
                        nx |= 1u128 << (j + 1);
                    }
                }
                nx
            }
        };
    }
    (cur >> n) & 1 == 1
}

/// The literal definition (exponential; only used to cross-check `like_match`).
fn like_backtrack(toks: &[Tok], s: &[char], ci: bool, fold: &mut Fold) -> bool {
    match toks.split_first() {
        None => s.is_empty(),
        Some((Tok::Many, rest)) => (0..=s.len()).any(|k| like_backtrack(rest, &s[k..], ci, fold)),
        Some((Tok::One, rest)) => !s.is_empty() && like_backtrack(rest, &s[1..], ci, fold),
        Some((Tok::Lit(c), rest)) => {
            !s.is_empty()
                && (if ci { fold.ieq(*c, s[0]) } else { *c == s[0] })
                && like_backtrack(rest, &s[1..], ci, fold)
        }
    }
}

#[derive(Clone, Copy, PartialEq, Eq, Debug, Hash)]
enum Op {
    Like,
    NLike,
    ILike,
    NILike,
    StartsWith,
    EndsWith,
    Contains,
}

const LIKE_OPS: [Op; 4] = [Op::Like, Op::NLike, Op::ILike, Op::NILike];
const ALL_OPS: [Op; 7] = [
    Op::Like,
    Op::NLike,
    Op::ILike,
    Op::NILike,
    Op::StartsWith,
    Op::EndsWith,
    Op::Contains,
];

impl Op {
    fn name(self) -> &'static str {
        match self {
            Op::Like => "like",
            Op::NLike => "nlike",
            Op::ILike => "ilike",
            Op::NILike => "nilike",
            Op::StartsWith => "starts_with",
            Op::EndsWith => "ends_with",
            Op::Contains => "contains",
        }
    }
    fn is_like(self) -> bool {
        matches!(self, Op::Like | Op::NLike | Op::ILike | Op::NILike)
    }
    fn call(self, l: &dyn Datum, r: &dyn Datum) -> Result<BooleanArray, ArrowError> {
        match self {
            Op::Like => like::like(l, r),
            Op::NLike => like::nlike(l, r),
            Op::ILike => like::ilike(l, r),
            Op::NILike => like::nilike(l, r),
            Op::StartsWith => like::starts_with(l, r),
            Op::EndsWith => like::ends_with(l, r),
            Op::Contains => like::contains(l, r),
        }
    }
}

/// A pattern prepared for repeated model evaluation.
struct MPat {
    toks: Vec<Tok>,
    chars: Vec<char>,
}

impl MPat {
    fn new(p: &str) -> MPat {
        MPat {
            toks: parse_like(p),
            chars: p.chars().collect(),
        }
    }
}

fn chars_contains(h: &[char], n: &[char]) -> bool {
    if n.is_empty() {
        return true;
    }
    if n.len() > h.len() {
        return false;
    }
    (0..=h.len() - n.len()).any(|i| h[i..i + n.len()] == *n)
}

fn model_op(op: Op, pat: &MPat, hay: &[char], fold: &mut Fold) -> bool {
    match op {
        Op::Like => like_match(&pat.toks, hay, false, fold),
        Op::NLike => !like_match(&pat.toks, hay, false, fold),
        Op::ILike => like_match(&pat.toks, hay, true, fold),
        Op::NILike => !like_match(&pat.toks, hay, true, fold),
        Op::StartsWith => hay.len() >= pat.chars.len() && hay[..pat.chars.len()] == pat.chars[..],
        Op::EndsWith => {
            hay.len() >= pat.chars.len() && hay[hay.len() - pat.chars.len()..] == pat.chars[..]
        }
        Op::Contains => {
            if fold.broken == 3 {
                // broken model: contains("") is false
                !pat.chars.is_empty() && chars_contains(hay, &pat.chars)
            } else {
                chars_contains(hay, &pat.chars)
            }
        }
    }
}

/// Coarse shape of a LIKE pattern (evidence classes and signatures only).
fn shape(p: &str) -> &'static str {
    let special = |s: &str| s.contains(['%', '_', '\\']);
    if !special(p) {
        "literal"
    } else if p.ends_with('\\') && !p.ends_with("\\\\") {
        "trailing-backslash"
    } else if p.contains('\\') {
        "escape"
    } else if p.len() >= 2 && p.starts_with('%') && p.ends_with('%') && !special(&p[1..p.len() - 1]) {
        "%lit%"
    } else if p.ends_with('%') && !special(&p[..p.len() - 1]) {
        "lit%"
    } else if p.starts_with('%') && !special(&p[1..]) {
        "%lit"
    } else {
        "wildcards"
    }
}

// ================================================================= encodings

#[derive(Clone, Debug)]
struct Enc {
    dt: DataType,
    /// coarse name (no key type) for classes / signatures
    name: String,
}

fn enc_plain(k: usize) -> Enc {
    let dt = match k % 3 {
        0 => DataType::Utf8,
        1 => DataType::LargeUtf8,
        _ => DataType::Utf8View,
    };
    Enc {
        name: format!("{dt}"),
        dt,
    }
}

fn value_type(dt: &DataType) -> &DataType {
    match dt {
        DataType::Dictionary(_, v) => v,
        o => o,
    }
}

fn enc_dict(key: DataType, vt: &DataType) -> Enc {
    Enc {
        name: format!("Dict<{vt}>"),
        dt: DataType::Dictionary(Box::new(key), Box::new(vt.clone())),
    }
}

fn gen_key(rng: &mut Rng) -> DataType {
    use DataType::*;
    rng.pick(&[Int8, Int16, Int32, Int64, UInt8, UInt16, UInt32, UInt64])
        .clone()
}

/// the four encodings of one logical column; the dictionary's value type rotates
fn four_encodings(rng: &mut Rng) -> Vec<Enc> {
    let vt = enc_plain(rng.below(3)).dt;
    let key = gen_key(rng);
    vec![enc_plain(0), enc_plain(1), enc_plain(2), enc_dict(key, &vt)]
}

fn str_vals(xs: &[Option<String>]) -> Vec<Val> {
    xs.iter()
        .map(|x| match x {
            Some(s) => Val::Str(s.clone()),
            None => Val::Null,
        })
        .collect()
}

fn mk_array(rng: &mut Rng, enc: &Enc, vals: &[Val]) -> ArrayRef {
    if rng.chance(1, 5) {
        build(&enc.dt, vals)
    } else {
        realise(rng, &enc.dt, vals)
    }
}

fn mk_scalar(rng: &mut Rng, enc: &Enc, v: &Option<String>) -> Scalar<ArrayRef> {
    let vals = str_vals(std::slice::from_ref(v));
    Scalar::new(mk_array(rng, enc, &vals))
}

// ================================================================ comparison

fn describe_bool(a: &BooleanArray, i: usize) -> String {
    if a.is_null(i) { "NULL".into() } else { format!("{}", a.value(i)) }
}

/// Compare a boolean kernel outcome with the per-row expectation. Returns true
/// when it held. `row` renders the inputs of a row for the witness.
fn check_bool(
    ctx: &mut Ctx,
    sig: &str,
    got: &Outcome<BooleanArray>,
    exp: &[Option<bool>],
    validate: bool,
    row: &dyn Fn(usize) -> String,
    head: &dyn Fn() -> String,
) -> bool {
    match got {
        Outcome::Ok(a) => {
            if a.len() != exp.len() {
                ctx.violation(
                    &format!("{sig}|wrong-length"),
                    format!("{}\nresult has {} rows, expected {}", head(), a.len(), exp.len()),
                );
                return false;
            }
            for (i, e) in exp.iter().enumerate() {
                let g = if a.is_null(i) { None } else { Some(a.value(i)) };
                if g != *e {
                    let kind = match (g, e) {
                        (None, Some(_)) => "null-instead-of-value",
                        (Some(_), None) => "value-instead-of-null",
                        _ => "wrong-value",
                    };
                    ctx.violation(
                        &format!("{sig}|{kind}"),
                        format!(
                            "{}\nrow {i}: {}\nexpected {:?} got {}",
                            head(),
                            row(i),
                            e,
                            describe_bool(a, i)
                        ),
                    );
                    return false;
                }
            }
            if validate {
                if let Err(e) = check_array(a) {
                    ctx.violation(
                        &format!("{sig}|invalid-output|{}", strip_digits(&e)),
                        format!("{}\n{e}", head()),
                    );
                    return false;
                }
            }
            true
        }
        Outcome::Err(m) => {
            ctx.violation(
                &format!("{sig}|unexpected-Err|{}", strip_digits(&first_words(m))),
                format!("{}\nErr: {m}", head()),
            );
            false
        }
        Outcome::Panic(p) => {
            report_panic(ctx, sig, p, head());
            false
        }
    }
}

fn first_words(m: &str) -> String {
    m.split_whitespace().take(6).collect::<Vec<_>>().join(" ")
}

/// Kernel family of a signature prefix `C20|<kernel>|...` (one panic site is one
/// defect no matter which of the sibling kernels / encodings reached it).
fn family(sig: &str) -> &'static str {
    let k = sig.split('|').nth(1).unwrap_or("");
    match k {
        "like" | "nlike" | "ilike" | "nilike" | "starts_with" | "ends_with" | "contains" => "like-family",
        "regexp_is_match" | "regexp_is_match_scalar" => "regexp",
        "substring" => "substring",
        "substring_by_char" => "substring_by_char",
        "length" | "bit_length" => "length",
        _ => "concat_elements",
    }
}

/// first line, quoted data removed, digits stripped
fn clean_msg(m: &str) -> String {
    let line = m.lines().next().unwrap_or("");
    let mut out = String::new();
    let mut quoted = false;
    for c in line.chars() {
        if c == '`' {
            quoted = !quoted;
            out.push('`');
        } else if !quoted {
            out.push(c);
        }
    }
    strip_digits(&out)
}

fn report_panic(ctx: &mut Ctx, sig: &str, p: &PanicInfo, detail: String) {
    if p.is_model() {
        ctx.inconclusive(&format!("harness model panic in {sig}: {} @ {}", p.msg, p.loc));
        return;
    }
    ctx.violation(
        &format!("{P}|{}|panic|{}|{}", family(sig), p.file(), clean_msg(&p.msg)),
        format!("panic: {} @ {}\n({sig})\n{detail}", p.msg, p.loc),
    );
}

fn opt_chars(v: &Option<String>) -> Option<Vec<char>> {
    v.as_ref().map(|s| s.chars().collect())
}

// ======================================================== exhaustive LIKE

const PAT_ALPHA: [char; 7] = ['%', '_', '\\', 'a', 'A', 'é', '.'];
const STR_ALPHA: [char; 11] = [
    'a', 'A', 'é', 'É', '\n', '%', '_', '\\', '.', 'ǅ', '\u{301}',
];
/// 13 bytes: makes every string of the "long" universe an out-of-line view
const LONG_MID: &str = "Aa.é%_\\\nǅ\u{301}";

fn all_strings(alpha: &[char], maxlen: usize) -> Vec<String> {
    let mut out = vec![String::new()];
    let mut prev = vec![String::new()];
    for _ in 0..maxlen {
        let mut next = Vec::with_capacity(prev.len() * alpha.len());
        for p in &prev {
            for c in alpha {
                let mut s = p.clone();
                s.push(*c);
                next.push(s);
            }
        }
        out.extend(next.iter().cloned());
        prev = next;
    }
    out
}

struct Universe {
    name: &'static str,
    rows: Vec<Option<String>>,
    chars: Vec<Option<Vec<char>>>,
    arrays: Vec<(Enc, ArrayRef)>,
}

fn with_nulls(strs: Vec<String>) -> Vec<Option<String>> {
    let mut rows = Vec::with_capacity(strs.len() + strs.len() / 61 + 1);
    for (i, s) in strs.into_iter().enumerate() {
        if i % 61 == 7 {
            rows.push(None);
        }
        rows.push(Some(s));
    }
    rows
}

fn mk_universe(rng: &mut Rng, name: &'static str, rows: Vec<Option<String>>, encs: &[Enc]) -> Universe {
    let vals = str_vals(&rows);
    let arrays = encs
        .iter()
        .map(|e| (e.clone(), realise(rng, &e.dt, &vals)))
        .collect();
    let chars = rows.iter().map(opt_chars).collect();
    Universe {
        name,
        rows,
        chars,
        arrays,
    }
}

fn universes(ctx: &Ctx) -> Vec<Universe> {
    // one fixed realisation per (seed): part of the section's constant setup
    let mut rng = Rng::new(mix(ctx.seed, hash_str("C20-universes")));
    // tiny tier (Miri / valgrind smoke): much smaller universes
    let tiny = ctx.tier == crate::mon::Tier::Tiny;
    let short = all_strings(&STR_ALPHA, if tiny { 2 } else { 4 });
    let ascii: Vec<String> = short.iter().filter(|s| s.is_ascii()).cloned().collect();
    let edge = all_strings(&STR_ALPHA, if tiny { 1 } else { 2 });
    let mut long = Vec::with_capacity(edge.len() * edge.len());
    for u in &edge {
        for v in &edge {
            long.push(format!("{u}{LONG_MID}{v}"));
        }
    }
    let e4 = vec![
        enc_plain(0),
        enc_plain(1),
        enc_plain(2),
        enc_dict(DataType::Int32, &DataType::Utf8),
        enc_dict(DataType::Int16, &DataType::Utf8View),
    ];
    let e_long = vec![
        enc_plain(2),
        enc_plain(0),
        enc_dict(DataType::UInt16, &DataType::Utf8View),
    ];
    vec![
        mk_universe(&mut rng, "short", with_nulls(short), &e4),
        mk_universe(&mut rng, "ascii", with_nulls(ascii), &e4),
        mk_universe(&mut rng, "long", with_nulls(long), &e_long),
    ]
}

fn model_selfcheck(ctx: &mut Ctx, pat: &MPat, uni: &Universe, fold: &mut Fold, i: u64) {
    // position-set matcher == literal backtracking definition on a stride of rows
    let n = uni.chars.len();
    for k in 0..40usize {
        let j = (i as usize * 131 + k * 7919) % n;
        if let Some(h) = &uni.chars[j] {
            for ci in [false, true] {
                let a = like_match(&pat.toks, h, ci, fold);
                let b = like_backtrack(&pat.toks, h, ci, fold);
                if a != b && fold.broken == 0 {
                    ctx.inconclusive(&format!(
                        "model self-check: matcher {a} vs backtracking {b} for {:?} / {:?} ci={ci}",
                        pat.chars, h
                    ));
                    return;
                }
            }
        }
    }
}

/// State that lives across the interleaved rounds of `run`.
struct State {
    patterns: Vec<String>,
    unis: Option<Vec<Universe>>,
    fold: Fold,
    exh_done: usize,
}

/// The `round`-th of `rounds` contiguous chunks of this shard's case list.
fn chunk_of(cases: Vec<u64>, round: usize, rounds: usize) -> Vec<u64> {
    let lo = cases.len() * round / rounds;
    let hi = cases.len() * (round + 1) / rounds;
    cases[lo..hi].to_vec()
}

fn exh_cases(ctx: &Ctx, st: &State) -> Vec<u64> {
    // tiny: a stride of patterns only
    let stride = ctx.tier.pick(701u64, 1, 1);
    let mut cases = ctx.cases("like-exh", st.patterns.len() as u64);
    if ctx.only_case.is_none() {
        cases.retain(|i| i % stride == 0);
    }
    cases
}

fn run_like_exhaustive(ctx: &mut Ctx, st: &mut State, round: usize, rounds: usize) {
    let sec = "like-exh";
    let cases = chunk_of(exh_cases(ctx, st), round, rounds);
    if cases.is_empty() {
        return;
    }
    if st.unis.is_none() {
        st.unis = Some(universes(ctx));
    }
    let State {
        patterns,
        unis,
        fold,
        exh_done,
    } = st;
    let unis = unis.as_ref().unwrap();
    let arr_rows = ctx.tier.pick(12usize, 192, 1024);
    for i in cases {
        if ctx.out_of_time() {
            break;
        }
        *exh_done += 1;
        let mut rng = ctx.begin(sec, i);
        let p = &patterns[i as usize];
        let pat = MPat::new(p);
        let sh = shape(p);
        ctx.eval();
        let mut pairs = 0u64;
        for uni in unis {
            model_selfcheck(ctx, &pat, uni, fold, i);
            // expectations per op
            let mut exp: Vec<Vec<Option<bool>>> = Vec::with_capacity(7);
            for op in ALL_OPS {
                exp.push(
                    uni.chars
                        .iter()
                        .map(|h| h.as_ref().map(|h| model_op(op, &pat, h, fold)))
                        .collect(),
                );
            }
            pairs += uni.rows.len() as u64;
            for (enc, arr) in &uni.arrays {
                // scalar pattern in the haystack's value type, sometimes itself a dictionary scalar
                let vt = value_type(&enc.dt).clone();
                let senc = if rng.chance(1, 4) {
                    enc_dict(gen_key(&mut rng), &vt)
                } else {
                    Enc {
                        name: format!("{vt}"),
                        dt: vt,
                    }
                };
                let scalar = mk_scalar(&mut rng, &senc, &Some(p.clone()));
                for (k, op) in ALL_OPS.iter().enumerate() {
                    let got = run_op(|| op.call(arr, &scalar));
                    let sh = if op.is_like() { sh } else { "needle" };
                    let sig = format!("{P}|{}|scalar-pattern|{}|{sh}", op.name(), enc.name);
                    let ok = check_bool(
                        ctx,
                        &sig,
                        &got,
                        &exp[k],
                        i % 16 == 3,
                        &|r| format!("haystack {:?}", uni.rows[r]),
                        &|| {
                            format!(
                                "{} haystack {} (universe {}, {} rows) vs scalar pattern {:?} ({})",
                                op.name(),
                                enc.dt,
                                uni.name,
                                uni.rows.len(),
                                p,
                                senc.dt
                            )
                        },
                    );
                    if ok {
                        let t = exp[k].iter().any(|e| *e == Some(true));
                        let f = exp[k].iter().any(|e| *e == Some(false));
                        ctx.class(format!(
                            "exh|{}|scalar|{}|{}|{sh}|{}{}",
                            op.name(),
                            enc.name,
                            uni.name,
                            if t { "T" } else { "" },
                            if f { "F" } else { "" }
                        ));
                    }
                }
            }
        }
        ctx.count("exh_pattern_string_pairs", pairs);
        ctx.count("exh_patterns", 1);

        // stratified array-pattern form: every row has its own pattern, in
        // short runs so that arrow's per-row predicate cache both hits and misses
        let uni = &unis[(i % 3) as usize];
        let n = uni.rows.len();
        let mut hs: Vec<Option<String>> = Vec::with_capacity(arr_rows);
        let mut ps: Vec<Option<String>> = Vec::with_capacity(arr_rows);
        for k in 0..arr_rows {
            let j = (i as usize * 7919 + k * 104_729) % n;
            hs.push(uni.rows[j].clone());
            let pi = (i as usize + k / 3) % patterns.len();
            ps.push(if k % 53 == 11 { None } else { Some(patterns[pi].clone()) });
        }
        let vt = enc_plain(rng.below(3)).dt;
        let he = if rng.bool() { enc_dict(DataType::Int32, &vt) } else { enc_plain(0).with(&vt) };
        let pe = if rng.chance(1, 3) { enc_dict(DataType::Int32, &vt) } else { enc_plain(0).with(&vt) };
        let ha = mk_array(&mut rng, &he, &str_vals(&hs));
        let pa = mk_array(&mut rng, &pe, &str_vals(&ps));
        let mpats: Vec<Option<MPat>> = ps.iter().map(|p| p.as_ref().map(|p| MPat::new(p))).collect();
        let hch: Vec<Option<Vec<char>>> = hs.iter().map(opt_chars).collect();
        for op in LIKE_OPS {
            let exp: Vec<Option<bool>> = (0..arr_rows)
                .map(|r| match (&hch[r], &mpats[r]) {
                    (Some(h), Some(p)) => Some(model_op(op, p, h, fold)),
                    _ => None,
                })
                .collect();
            let got = run_op(|| op.call(&ha, &pa));
            let sig = format!("{P}|{}|array-pattern|{}|{}", op.name(), he.name, pe.name);
            let ok = check_bool(
                ctx,
                &sig,
                &got,
                &exp,
                true,
                &|r| format!("haystack {:?} pattern {:?}", hs[r], ps[r]),
                &|| format!("{} haystack {} vs pattern array {}", op.name(), he.dt, pe.dt),
            );
            if ok {
                ctx.class(format!("exh|{}|array|{}|{}|{}", op.name(), he.name, pe.name, uni.name));
            }
            ctx.count("exh_array_pattern_rows", arr_rows as u64);
        }
        ctx.sample(|| format!("like-exh pattern {p:?} shape {sh}: {pairs} haystacks x 7 ops x encodings"));
    }
}

impl Enc {
    fn with(&self, dt: &DataType) -> Enc {
        Enc {
            name: format!("{dt}"),
            dt: dt.clone(),
        }
    }
}

// ============================================================ random strings

const ASCII_AB: [&str; 38] = [
    "a", "b", "A", "B", "k", "K", "s", "S", "z", "0", " ", "\n", "\t", "%", "_", "\\", ".", "*",
    "+", "?", "(", ")", "[", "]", "{", "}", "|", "^", "$", "-", "#", "&", "~", "/", "\"", "'", "a",
    "A",
];
const UNI_AB: [&str; 26] = [
    "é", "É", "ß", "ẞ", "ǅ", "ǆ", "Ǆ", "İ", "ı", "\u{212A}", "\u{17F}", "σ", "ς", "Σ", "\u{301}",
    "€", "中", "😀", "\u{10FFFF}", "µ", "μ", "Å", "\u{212B}", "e\u{301}", "\u{FEFF}", "\u{7f}",
];
const TINY_AB: [&str; 7] = ["a", "A", "b", "%", "_", "\\", "é"];

#[derive(Clone, Copy, PartialEq, Eq, Debug)]
enum Alpha {
    /// all-ASCII column (drives the ASCII fast path decisions)
    Ascii,
    Tiny,
    Mixed,
}

fn gen_piece(rng: &mut Rng, al: Alpha) -> &'static str {
    match al {
        Alpha::Ascii => *rng.pick(&ASCII_AB),
        Alpha::Tiny => *rng.pick(&TINY_AB),
        Alpha::Mixed => {
            if rng.chance(2, 5) {
                *rng.pick(&UNI_AB)
            } else {
                *rng.pick(&ASCII_AB)
            }
        }
    }
}

fn gen_hay(rng: &mut Rng, al: Alpha) -> String {
    const LENS: [usize; 18] = [0, 0, 1, 1, 2, 2, 3, 4, 5, 6, 8, 11, 12, 13, 14, 20, 33, 40];
    let n = *rng.pick(&LENS);
    let mut s = String::new();
    for _ in 0..n {
        s.push_str(gen_piece(rng, al));
    }
    s
}

/// Like `gen_hay`, occasionally much longer (more than 255 / 4096 bytes): for the
/// kernels whose model has no length limit (substring, length, concat).
fn gen_text(rng: &mut Rng, al: Alpha) -> String {
    if !rng.chance(1, 60) {
        return gen_hay(rng, al);
    }
    let n = *rng.pick(&[250usize, 255, 256, 257, 300, 700, 4100]);
    let mut s = String::new();
    while s.len() < n {
        s.push_str(gen_piece(rng, al));
    }
    s
}

fn swap_case(c: char) -> char {
    if c.is_lowercase() {
        let mut u = c.to_uppercase();
        match (u.next(), u.next()) {
            (Some(x), None) => x,
            _ => c,
        }
    } else {
        let mut l = c.to_lowercase();
        match (l.next(), l.next()) {
            (Some(x), None) => x,
            _ => c,
        }
    }
}

/// A LIKE pattern related to `hay` so that matches are frequent.
fn derive_pattern(rng: &mut Rng, hay: &str, al: Alpha) -> String {
    if rng.chance(1, 10) {
        // unrelated
        let n = rng.below(7);
        let mut s = String::new();
        for _ in 0..n {
            match rng.below(4) {
                0 => s.push('%'),
                1 => s.push('_'),
                2 => s.push('\\'),
                _ => s.push_str(gen_piece(rng, al)),
            }
        }
        return s;
    }
    let ch: Vec<char> = hay.chars().collect();
    let n = ch.len();
    let a = rng.below(n + 1);
    let b = a + rng.below(n - a + 1);
    let (lo, hi, pre, post) = match rng.below(6) {
        0 => (0, n, false, false),
        1 => (0, b, false, true),
        2 => (a, n, true, false),
        3 => (a, b, true, true),
        4 => (0, n, rng.bool(), rng.bool()),
        _ => (a, b, rng.bool(), rng.bool()),
    };
    let wild = *rng.pick(&[0u32, 0, 8, 4]);
    let mut s = String::new();
    if pre {
        s.push('%');
    }
    let mut i = lo;
    while i < hi {
        let c = ch[i];
        if wild > 0 && rng.chance(1, wild) {
            if rng.bool() {
                s.push('_');
                i += 1;
            } else {
                s.push('%');
                i += rng.below(4);
            }
            continue;
        }
        let c = if rng.chance(1, 6) { swap_case(c) } else { c };
        if matches!(c, '%' | '_' | '\\') {
            if !rng.chance(1, 8) {
                s.push('\\');
            }
        } else if rng.chance(1, 12) {
            s.push('\\');
        }
        s.push(c);
        i += 1;
    }
    if post {
        s.push('%');
    }
    if rng.chance(1, 15) {
        s.push('\\');
    }
    s
}

/// A literal needle for starts_with / ends_with / contains.
fn derive_needle(rng: &mut Rng, hay: &str, al: Alpha) -> String {
    let ch: Vec<char> = hay.chars().collect();
    let n = ch.len();
    let a = rng.below(n + 1);
    let b = a + rng.below(n - a + 1);
    let mut v: Vec<char> = match rng.below(8) {
        0 => ch[..b].to_vec(),
        1 => ch[a..].to_vec(),
        2 | 3 => ch[a..b].to_vec(),
        4 => ch.clone(),
        5 => Vec::new(),
        6 => gen_hay(rng, al).chars().take(3).collect(),
        _ => {
            let mut x = ch.clone();
            x.extend(gen_piece(rng, al).chars());
            x
        }
    };
    if !v.is_empty() && rng.chance(1, 8) {
        let k = rng.below(v.len());
        v[k] = swap_case(v[k]);
    }
    v.into_iter().collect()
}

fn gen_null_mask(rng: &mut Rng, n: usize) -> Vec<bool> {
    let (a, b) = *rng.pick(&[(0u32, 1u32), (0, 1), (1, 10), (1, 4), (1, 2)]);
    (0..n).map(|_| a > 0 && rng.chance(a, b)).collect()
}

// ============================================================ random LIKE

fn run_like_random(ctx: &mut Ctx, st: &mut State, round: usize, rounds: usize) {
    let sec = "like-rand";
    let total = ctx.tier.pick(6u64, 64_000, 1_200_000);
    let fold = &mut st.fold;
    for i in chunk_of(ctx.cases(sec, total), round, rounds) {
        if ctx.out_of_time() {
            break;
        }
        let mut rng = ctx.begin(sec, i);
        let al = *rng.pick(&[Alpha::Ascii, Alpha::Tiny, Alpha::Mixed, Alpha::Mixed]);
        let n = 1 + rng.len_biased(70);
        let hnull = gen_null_mask(&mut rng, n);
        let pnull = gen_null_mask(&mut rng, n);
        let dup = rng.chance(1, 3);
        let mut hays: Vec<Option<String>> = Vec::with_capacity(n);
        for r in 0..n {
            if hnull[r] {
                hays.push(None);
            } else if dup && r > 0 && rng.bool() {
                hays.push(hays[rng.below(r)].clone());
            } else {
                hays.push(Some(gen_hay(&mut rng, al)));
            }
        }
        // the ops of this case: two LIKE-family ops and one literal op
        let mut ops = vec![*rng.pick(&LIKE_OPS), *rng.pick(&LIKE_OPS), ALL_OPS[4 + rng.below(3)]];
        ops.dedup();
        let hch: Vec<Option<Vec<char>>> = hays.iter().map(opt_chars).collect();
        let encs = four_encodings(&mut rng);
        let hay_vals = str_vals(&hays);
        let hay_arrays: Vec<ArrayRef> = encs.iter().map(|e| mk_array(&mut rng, e, &hay_vals)).collect();
        ctx.eval();

        for op in ops {
            // per-row patterns, in runs
            let runs = rng.chance(1, 2);
            let mut pats: Vec<Option<String>> = Vec::with_capacity(n);
            for r in 0..n {
                if pnull[r] {
                    pats.push(None);
                    continue;
                }
                if runs && r > 0 && pats[r - 1].is_some() && rng.chance(2, 3) {
                    pats.push(pats[r - 1].clone());
                    continue;
                }
                let base = match &hays[r] {
                    Some(h) if rng.chance(5, 6) => h.clone(),
                    _ => gen_hay(&mut rng, al),
                };
                pats.push(Some(if op.is_like() {
                    derive_pattern(&mut rng, &base, al)
                } else {
                    derive_needle(&mut rng, &base, al)
                }));
            }
            let mp: Vec<Option<MPat>> = pats.iter().map(|p| p.as_ref().map(|p| MPat::new(p))).collect();
            let exp_arr: Vec<Option<bool>> = (0..n)
                .map(|r| match (&hch[r], &mp[r]) {
                    (Some(h), Some(p)) => Some(model_op(op, p, h, fold)),
                    _ => None,
                })
                .collect();
            // one scalar pattern (possibly null) for the scalar-pattern form
            let sp: Option<String> = if rng.chance(1, 20) {
                None
            } else {
                let cands: Vec<&String> = pats.iter().flatten().collect();
                if cands.is_empty() || rng.chance(1, 8) {
                    Some(gen_hay(&mut rng, al).chars().take(4).collect())
                } else {
                    Some((*rng.pick(&cands)).clone())
                }
            };
            let smp = sp.as_ref().map(|p| MPat::new(p));
            let exp_sc: Vec<Option<bool>> = (0..n)
                .map(|r| match (&hch[r], &smp) {
                    (Some(h), Some(p)) => Some(model_op(op, p, h, fold)),
                    _ => None,
                })
                .collect();
            // one scalar haystack for the scalar-haystack form
            let sh_row = rng.below(n);
            let sh = hays[sh_row].clone();
            let shc = opt_chars(&sh);
            let exp_sh: Vec<Option<bool>> = (0..n)
                .map(|r| match (&shc, &mp[r]) {
                    (Some(h), Some(p)) => Some(model_op(op, p, h, fold)),
                    _ => None,
                })
                .collect();
            let exp_ss: Vec<Option<bool>> = vec![match (&shc, &smp) {
                (Some(h), Some(p)) => Some(model_op(op, p, h, fold)),
                _ => None,
            }];
            let shape_of = |p: &Option<String>| -> &'static str {
                match p {
                    None => "null",
                    Some(p) if op.is_like() => shape(p),
                    Some(_) => "needle",
                }
            };

            for (k, he) in encs.iter().enumerate() {
                let ha = &hay_arrays[k];
                let vt = value_type(&he.dt).clone();
                let pe = if rng.chance(1, 3) {
                    enc_dict(gen_key(&mut rng), &vt)
                } else {
                    he.with(&vt)
                };
                let pa = mk_array(&mut rng, &pe, &str_vals(&pats));
                let al_s = format!("{al:?}");
                // (1) array x array
                {
                    let got = run_op(|| op.call(ha, &pa));
                    let sig = format!("{P}|{}|array-pattern|{}|{}", op.name(), he.name, pe.name);
                    let ok = check_bool(
                        ctx,
                        &sig,
                        &got,
                        &exp_arr,
                        true,
                        &|r| format!("haystack {:?} pattern {:?}", hays[r], pats[r]),
                        &|| {
                            format!(
                                "{} haystack {} vs pattern array {} ({n} rows)\nhaystacks {}\npatterns {}",
                                op.name(),
                                he.dt,
                                pe.dt,
                                dump_vals(&hay_vals),
                                dump_vals(&str_vals(&pats))
                            )
                        },
                    );
                    if ok {
                        ctx.class(format!("{}|arr-arr|{}|{}|{al_s}", op.name(), he.name, pe.name));
                    }
                }
                // (2) array x scalar
                {
                    let se = if rng.chance(1, 3) { enc_dict(gen_key(&mut rng), &vt) } else { he.with(&vt) };
                    let sc = mk_scalar(&mut rng, &se, &sp);
                    let got = run_op(|| op.call(ha, &sc));
                    let sig = format!(
                        "{P}|{}|scalar-pattern|{}|{}",
                        op.name(),
                        he.name,
                        shape_of(&sp)
                    );
                    let ok = check_bool(
                        ctx,
                        &sig,
                        &got,
                        &exp_sc,
                        true,
                        &|r| format!("haystack {:?}", hays[r]),
                        &|| {
                            format!(
                                "{} haystack {} ({n} rows, alphabet {al_s}) vs scalar pattern {:?} ({})\nhaystacks {}",
                                op.name(),
                                he.dt,
                                sp,
                                se.dt,
                                dump_vals(&hay_vals)
                            )
                        },
                    );
                    if ok {
                        ctx.class(format!(
                            "{}|arr-scalar|{}|{}|{al_s}|{}",
                            op.name(),
                            he.name,
                            se.name,
                            shape_of(&sp)
                        ));
                    }
                }
                // (3) scalar haystack x array pattern, (4) scalar x scalar: one encoding per op
                if k == (i as usize + op as usize) % 4 {
                    let se = if rng.chance(1, 3) { enc_dict(gen_key(&mut rng), &vt) } else { he.with(&vt) };
                    let hsc = mk_scalar(&mut rng, &he.clone(), &sh);
                    let got = run_op(|| op.call(&hsc, &pa));
                    let sig = format!("{P}|{}|scalar-haystack|{}|{}", op.name(), he.name, pe.name);
                    let ok = check_bool(
                        ctx,
                        &sig,
                        &got,
                        &exp_sh,
                        true,
                        &|r| format!("pattern {:?}", pats[r]),
                        &|| format!("{} scalar haystack {:?} ({}) vs pattern array {}", op.name(), sh, he.dt, pe.dt),
                    );
                    if ok {
                        ctx.class(format!("{}|scalar-arr|{}|{}|{al_s}", op.name(), he.name, pe.name));
                    }
                    let psc = mk_scalar(&mut rng, &se, &sp);
                    let got = run_op(|| op.call(&hsc, &psc));
                    let sig = format!("{P}|{}|scalar-scalar|{}|{}", op.name(), he.name, shape_of(&sp));
                    let ok = check_bool(
                        ctx,
                        &sig,
                        &got,
                        &exp_ss,
                        true,
                        &|_| String::new(),
                        &|| format!("{} scalar haystack {:?} ({}) vs scalar pattern {:?} ({})", op.name(), sh, he.dt, sp, se.dt),
                    );
                    if ok {
                        ctx.class(format!("{}|scalar-scalar|{}|{}", op.name(), he.name, se.name));
                    }
                }
            }
            ctx.count("rand_like_rows", n as u64);
        }
        ctx.sample(|| format!("like-rand alphabet {al:?} haystacks {}", dump_vals(&hay_vals)));
    }
}

// ================================================================== regex

const FLAG_SETS: [&str; 10] = ["i", "s", "m", "x", "U", "is", "im", "smi", "R", "ix"];

fn model_regex(pattern: &str, flags: Option<&str>) -> Result<Regex, String> {
    let mut b = RegexBuilder::new(pattern);
    if let Some(f) = flags {
        for c in f.chars() {
            match c {
                'i' => b.case_insensitive(true),
                's' => b.dot_matches_new_line(broken() != 5),
                'm' => b.multi_line(true),
                'x' => b.ignore_whitespace(true),
                'U' => b.swap_greed(true),
                'R' => b.crlf(true),
                o => panic!("model: unknown flag {o}"),
            };
        }
    }
    b.build().map_err(|e| e.to_string())
}

fn gen_regex(rng: &mut Rng, hay: &str, al: Alpha) -> String {
    let ch: Vec<char> = hay.chars().collect();
    let mut s = String::new();
    match rng.below(10) {
        0 => return String::new(),
        1 => {
            // deliberately broken
            return (*rng.pick(&["(", "[a", "*a", "a{2,1}", "\\", "(?P<n>a", "a)", "[z-a]", "\\p{Nope}", "(?i"])).to_string();
        }
        2 => {
            // raw piece of the haystack (metacharacters not escaped: may or may not compile)
            let a = rng.below(ch.len() + 1);
            let b = a + rng.below(ch.len() - a + 1);
            return ch[a..b].iter().collect();
        }
        _ => {}
    }
    if rng.chance(1, 4) {
        s.push('^');
    }
    let a = rng.below(ch.len() + 1);
    let b = (a + rng.below(6)).min(ch.len());
    for c in &ch[a..b] {
        match rng.below(12) {
            0 => s.push('.'),
            1 => s.push_str(".*"),
            2 => s.push_str("\\w"),
            3 => s.push_str("[a-zé]"),
            4 => s.push_str("\\s?"),
            5 => {
                s.push('(');
                s.push_str(&regex::escape(&c.to_string()));
                s.push_str("|b)");
            }
            6 => {
                s.push_str(&regex::escape(&swap_case(*c).to_string()));
            }
            7 => {
                s.push_str(&regex::escape(&c.to_string()));
                s.push_str(*rng.pick(&["+", "*", "?", "{1,2}"]));
            }
            _ => s.push_str(&regex::escape(&c.to_string())),
        }
    }
    if s.is_empty() || rng.chance(1, 8) {
        s.push_str(gen_piece(rng, al));
    }
    if rng.chance(1, 4) {
        s.push('$');
    }
    if rng.chance(1, 10) {
        s.push_str(" # c");
    }
    s
}

macro_rules! with_str {
    ($a:expr, $x:ident => $body:expr) => {
        match $a.data_type() {
            DataType::Utf8 => {
                let $x = $a.as_string::<i32>();
                $body
            }
            DataType::LargeUtf8 => {
                let $x = $a.as_string::<i64>();
                $body
            }
            DataType::Utf8View => {
                let $x = $a.as_string_view();
                $body
            }
            o => panic!("model: not a string array: {o}"),
        }
    };
}

fn call_regexp_is_match(
    v: &ArrayRef,
    p: &ArrayRef,
    f: Option<&ArrayRef>,
) -> Result<BooleanArray, ArrowError> {
    with_str!(v, va => with_str!(p, pa => match f {
        None => regexp_is_match(va, pa, None::<&StringArray>),
        Some(f) => with_str!(f, fa => regexp_is_match(va, pa, Some(fa))),
    }))
}

fn call_regexp_is_match_scalar(
    v: &ArrayRef,
    p: &str,
    f: Option<&str>,
) -> Result<BooleanArray, ArrowError> {
    with_str!(v, va => regexp_is_match_scalar(va, p, f))
}

fn run_regex(ctx: &mut Ctx, _st: &mut State, round: usize, rounds: usize) {
    let sec = "regex";
    let total = ctx.tier.pick(6u64, 96_000, 1_600_000);
    for i in chunk_of(ctx.cases(sec, total), round, rounds) {
        if ctx.out_of_time() {
            break;
        }
        let mut rng = ctx.begin(sec, i);
        let al = *rng.pick(&[Alpha::Ascii, Alpha::Tiny, Alpha::Mixed, Alpha::Mixed]);
        let n = 1 + rng.len_biased(60);
        let vnull = gen_null_mask(&mut rng, n);
        let pnull = gen_null_mask(&mut rng, n);
        let vals: Vec<Option<String>> = (0..n)
            .map(|r| if vnull[r] { None } else { Some(gen_hay(&mut rng, al)) })
            .collect();
        // few distinct patterns so that arrow's cache is hit, invalid ones rare
        let npat = 1 + rng.below(4);
        let allow_invalid = rng.chance(1, 4);
        let mut pool: Vec<String> = Vec::new();
        for _ in 0..npat {
            let base = match rng.pick(&vals) {
                Some(h) => h.clone(),
                None => gen_hay(&mut rng, al),
            };
            let mut p = gen_regex(&mut rng, &base, al);
            if !allow_invalid {
                for _ in 0..8 {
                    if model_regex(&p, None).is_ok() {
                        break;
                    }
                    p = gen_regex(&mut rng, &base, al);
                }
            }
            pool.push(p);
        }
        let pats: Vec<Option<String>> = (0..n)
            .map(|r| if pnull[r] { None } else { Some(rng.pick(&pool).clone()) })
            .collect();
        let with_flags = rng.chance(1, 2);
        let fnull = if rng.chance(1, 4) { gen_null_mask(&mut rng, n) } else { vec![false; n] };
        let nflag = 1 + rng.below(2);
        let fpool: Vec<&str> = (0..nflag).map(|_| *rng.pick(&FLAG_SETS)).collect();
        let flags: Vec<Option<String>> = (0..n)
            .map(|r| if fnull[r] { None } else { Some(rng.pick(&fpool).to_string()) })
            .collect();
        ctx.eval();

        // model (array form)
        let mut cache: HashMap<(String, Option<String>), Result<Regex, String>> = HashMap::new();
        let mut must_err: Option<String> = None;
        let mut may_err = false;
        // None = null, Some(None) = not asserted, Some(Some(b)) = value
        let mut exp: Vec<Option<Option<bool>>> = Vec::with_capacity(n);
        for r in 0..n {
            let (Some(v), Some(p)) = (&vals[r], &pats[r]) else {
                exp.push(None);
                continue;
            };
            let f = if with_flags { flags[r].clone() } else { None };
            let asserted = !(with_flags && flags[r].is_none());
            let re = cache
                .entry((p.clone(), f.clone()))
                .or_insert_with(|| model_regex(p, f.as_deref()));
            match re {
                Ok(re) => exp.push(if asserted { Some(Some(re.is_match(v))) } else { Some(None) }),
                Err(e) => {
                    if asserted {
                        must_err.get_or_insert_with(|| format!("row {r} pattern {p:?} flags {f:?}: {e}"));
                    } else {
                        may_err = true;
                    }
                    exp.push(Some(None));
                }
            }
        }

        let ve = enc_plain(rng.below(3));
        let pe = if rng.chance(2, 3) { ve.clone() } else { enc_plain(rng.below(3)) };
        let fe = if rng.chance(2, 3) { pe.clone() } else { enc_plain(rng.below(3)) };
        let va = mk_array(&mut rng, &ve, &str_vals(&vals));
        let pa = mk_array(&mut rng, &pe, &str_vals(&pats));
        let fa = if with_flags { Some(mk_array(&mut rng, &fe, &str_vals(&flags))) } else { None };
        let head = || {
            format!(
                "regexp_is_match values {} patterns {} flags {}\nvalues {}\npatterns {}\nflags {}",
                ve.dt,
                pe.dt,
                if with_flags { fe.dt.to_string() } else { "-".into() },
                dump_vals(&str_vals(&vals)),
                dump_vals(&str_vals(&pats)),
                if with_flags { dump_vals(&str_vals(&flags)) } else { "-".into() }
            )
        };
        let got = run_op(|| call_regexp_is_match(&va, &pa, fa.as_ref()));
        let sig = format!("{P}|regexp_is_match|{}|{}|flags={}", ve.name, pe.name, with_flags);
        check_regex_outcome(ctx, &sig, &got, &exp, &must_err, may_err, &head, &|r| {
            format!("value {:?} pattern {:?} flag {:?}", vals[r], pats[r], if with_flags { flags[r].clone() } else { None })
        });
        ctx.count("regex_rows", n as u64);

        // scalar form: one pattern, one optional flag, all three encodings
        let sp = rng.pick(&pool).clone();
        let sf: Option<&str> = if rng.bool() { Some(*rng.pick(&FLAG_SETS)) } else { None };
        let sre = model_regex(&sp, sf);
        let (exp_s, must_s): (Vec<Option<Option<bool>>>, Option<String>) = match &sre {
            Ok(re) => (
                vals.iter().map(|v| v.as_ref().map(|v| Some(re.is_match(v)))).collect(),
                None,
            ),
            Err(e) => (vec![], Some(e.clone())),
        };
        for k in 0..3 {
            let e = enc_plain(k);
            let a = mk_array(&mut rng, &e, &str_vals(&vals));
            let got = run_op(|| call_regexp_is_match_scalar(&a, &sp, sf));
            let sig = format!("{P}|regexp_is_match_scalar|{}|flags={}", e.name, sf.is_some());
            // an uncompilable scalar pattern errors even when there is no non-null row:
            // accepted either way when every value is null / the array is empty
            let all_null = vals.iter().all(|v| v.is_none());
            let head = || {
                format!(
                    "regexp_is_match_scalar values {} pattern {:?} flag {:?}\nvalues {}",
                    e.dt,
                    sp,
                    sf,
                    dump_vals(&str_vals(&vals))
                )
            };
            if must_s.is_some() && all_null {
                match &got {
                    Outcome::Panic(p) => report_panic(ctx, &sig, p, head()),
                    _ => ctx.reject(),
                }
                continue;
            }
            check_regex_outcome(ctx, &sig, &got, &exp_s, &must_s, false, &head, &|r| {
                format!("value {:?}", vals[r])
            });
        }
        ctx.sample(|| head());
    }
}

#[allow(clippy::too_many_arguments)]
fn check_regex_outcome(
    ctx: &mut Ctx,
    sig: &str,
    got: &Outcome<BooleanArray>,
    exp: &[Option<Option<bool>>],
    must_err: &Option<String>,
    may_err: bool,
    head: &dyn Fn() -> String,
    row: &dyn Fn(usize) -> String,
) {
    match (got, must_err) {
        (Outcome::Panic(p), _) => report_panic(ctx, sig, p, head()),
        (Outcome::Err(_), Some(_)) => {
            ctx.class(format!("{sig}|Err-as-model"));
        }
        (Outcome::Ok(_), Some(why)) => ctx.violation(
            &format!("{sig}|Ok-but-pattern-does-not-compile"),
            format!("{}\nmodel: {why}", head()),
        ),
        (Outcome::Err(m), None) => {
            if may_err {
                ctx.reject();
            } else {
                ctx.violation(
                    &format!("{sig}|unexpected-Err|{}", strip_digits(&first_words(m))),
                    format!("{}\nErr: {m}", head()),
                );
            }
        }
        (Outcome::Ok(a), None) => {
            if a.len() != exp.len() {
                ctx.violation(
                    &format!("{sig}|wrong-length"),
                    format!("{}\nresult has {} rows, expected {}", head(), a.len(), exp.len()),
                );
                return;
            }
            let mut t = false;
            let mut f = false;
            for (i, e) in exp.iter().enumerate() {
                let g = if a.is_null(i) { None } else { Some(a.value(i)) };
                let bad = match (e, g) {
                    (None, None) => false,
                    (None, Some(_)) => true,
                    (Some(None), _) => false, // not asserted (null flag)
                    (Some(Some(_)), None) => true,
                    (Some(Some(x)), Some(y)) => {
                        t |= *x;
                        f |= !*x;
                        *x != y
                    }
                };
                if bad {
                    let kind = match (e, g) {
                        (None, Some(_)) => "value-instead-of-null",
                        (_, None) => "null-instead-of-value",
                        _ => "wrong-value",
                    };
                    ctx.violation(
                        &format!("{sig}|{kind}"),
                        format!("{}\nrow {i}: {}\nexpected {:?} got {}", head(), row(i), e, describe_bool(a, i)),
                    );
                    return;
                }
            }
            if let Err(e) = check_array(a) {
                ctx.violation(&format!("{sig}|invalid-output|{}", strip_digits(&e)), format!("{}\n{e}", head()));
                return;
            }
            if !exp.is_empty() {
                ctx.class(format!("{sig}|ok|{}{}", if t { "T" } else { "" }, if f { "F" } else { "" }));
            }
        }
    }
}

// ============================================================== substring

fn model_byte_substring(s: &str, start: i64, length: Option<u64>) -> Result<String, String> {
    let len = s.len() as i128;
    let st = if start >= 0 { (start as i128).min(len) } else { (len + start as i128).max(0) };
    let en = match length {
        Some(l) => (st + l as i128).min(len),
        None => len,
    };
    let (st, en) = (st as usize, en as usize);
    if !s.is_char_boundary(st) {
        return Err(format!("start {st} of {s:?} is inside a character"));
    }
    if !s.is_char_boundary(en) {
        return Err(format!("end {en} of {s:?} is inside a character"));
    }
    Ok(s[st..en].to_string())
}

fn model_char_substring(s: &str, start: i64, length: Option<u64>) -> String {
    let ch: Vec<char> = s.chars().collect();
    let n = ch.len() as i128;
    let st = if start >= 0 {
        (start as i128).min(n)
    } else if broken() == 4 {
        // broken model: a start before the beginning lands on the second character
        let raw = n + start as i128;
        if raw < 0 { 1.min(n) } else { raw }
    } else {
        (n + start as i128).max(0)
    };
    let en = match length {
        Some(l) => (st + l as i128).min(n),
        None => n,
    };
    ch[st as usize..en as usize].iter().collect()
}

fn start_class(s: i64) -> &'static str {
    if s == 0 {
        "zero"
    } else if s > i32::MAX as i64 {
        "pos-wide"
    } else if s > 0 {
        "pos"
    } else if s < i32::MIN as i64 {
        "neg-wide"
    } else {
        "neg"
    }
}

fn len_class(l: Option<u64>) -> &'static str {
    match l {
        None => "none",
        Some(l) if l > i64::MAX as u64 => "wide64",
        Some(l) if l > i32::MAX as u64 => "wide32",
        Some(_) => "small",
    }
}

/// signature class: how the arguments relate to the integer widths the kernels cast to
fn arg_width(start: i64, len: Option<u64>) -> &'static str {
    const M: i128 = 1 << 24;
    let l = len.unwrap_or(0) as i128;
    let s = start as i128;
    if l > i64::MAX as i128 {
        "beyond-i64"
    } else if l > i64::MAX as i128 - M || s > i64::MAX as i128 - M || s < i64::MIN as i128 + M {
        "i64-edge"
    } else if l > i32::MAX as i128 || s > i32::MAX as i128 || s < i32::MIN as i128 {
        "beyond-i32"
    } else if l > i32::MAX as i128 - M || s > i32::MAX as i128 - M || s < i32::MIN as i128 + M {
        "i32-edge"
    } else {
        "in-range"
    }
}

/// Dictionary substring delegates to the values: same defect family as the value type.
fn value_family(e: &Enc) -> String {
    format!("{}", value_type(&e.dt))
}

fn gen_start(rng: &mut Rng) -> i64 {
    const WIDE: [i64; 14] = [
        i32::MAX as i64,
        i32::MAX as i64 + 1,
        i32::MIN as i64,
        i32::MIN as i64 - 1,
        1 << 32,
        (1 << 32) + 1,
        -(1 << 32),
        -(1 << 32) - 1,
        (1 << 32) - 2,
        i64::MAX,
        i64::MIN,
        i64::MIN + 1,
        i64::MAX - 1,
        1 << 40,
    ];
    match rng.below(10) {
        0 => *rng.pick(&WIDE),
        1 => 0,
        2 => rng.range(-45, 45),
        _ => rng.range(-7, 7),
    }
}

fn gen_length(rng: &mut Rng) -> Option<u64> {
    const WIDE: [u64; 10] = [
        i32::MAX as u64,
        i32::MAX as u64 + 1,
        1 << 32,
        (1 << 32) + 1,
        (1 << 32) + 2,
        u32::MAX as u64,
        i64::MAX as u64,
        i64::MAX as u64 + 1,
        u64::MAX,
        u64::MAX - 1,
    ];
    match rng.below(10) {
        0 => Some(*rng.pick(&WIDE)),
        1 | 2 => None,
        3 => Some(rng.below(45) as u64),
        _ => Some(rng.below(7) as u64),
    }
}

/// (kind, detail) of the first difference between a returned array and the expectation
fn diff_strings(out: &ArrayRef, exp: &[Val], row: &dyn Fn(usize) -> String) -> Option<(String, String)> {
    if let Err(e) = check_array(out.as_ref()) {
        return Some((format!("invalid-output|{}", strip_digits(&e)), e));
    }
    let got = extract(out.as_ref());
    if got.len() != exp.len() {
        return Some((
            "wrong-length".into(),
            format!("result has {} rows, expected {}", got.len(), exp.len()),
        ));
    }
    for (i, (g, e)) in got.iter().zip(exp).enumerate() {
        if g != e {
            let kind = match (g.is_null(), e.is_null()) {
                (true, false) => "null-instead-of-value",
                (false, true) => "value-instead-of-null",
                _ => "wrong-value",
            };
            return Some((kind.into(), format!("row {i}: {}\nexpected {e:?} got {g:?}", row(i))));
        }
    }
    None
}

fn compare_strings(
    ctx: &mut Ctx,
    sig: &str,
    out: &ArrayRef,
    exp: &[Val],
    head: &dyn Fn() -> String,
    row: &dyn Fn(usize) -> String,
) -> bool {
    match diff_strings(out, exp, row) {
        None => true,
        Some((kind, d)) => {
            ctx.violation(&format!("{sig}|{kind}"), format!("{}\n{d}", head()));
            false
        }
    }
}

/// Every string the byte kernels physically visit for `a`, including the ones that
/// belong to no logical row: bytes under null slots of offset-based arrays, every
/// dictionary value (referenced or not). View arrays skip null slots.
fn physical_slots(a: &ArrayRef) -> Vec<String> {
    match a.data_type() {
        DataType::Dictionary(_, _) => physical_slots(a.as_any_dictionary().values()),
        DataType::Utf8 => {
            let x = a.as_string::<i32>();
            (0..x.len()).map(|i| x.value(i).to_string()).collect()
        }
        DataType::LargeUtf8 => {
            let x = a.as_string::<i64>();
            (0..x.len()).map(|i| x.value(i).to_string()).collect()
        }
        DataType::Utf8View => {
            let x = a.as_string_view();
            (0..x.len()).filter(|i| x.is_valid(*i)).map(|i| x.value(i).to_string()).collect()
        }
        o => panic!("model: not a string array: {o}"),
    }
}

fn run_substring(ctx: &mut Ctx, _st: &mut State, round: usize, rounds: usize) {
    let sec = "substr";
    let total = ctx.tier.pick(12u64, 240_000, 4_000_000);
    for i in chunk_of(ctx.cases(sec, total), round, rounds) {
        if ctx.out_of_time() {
            break;
        }
        let mut rng = ctx.begin(sec, i);
        let al = *rng.pick(&[Alpha::Ascii, Alpha::Ascii, Alpha::Tiny, Alpha::Mixed]);
        let n = rng.len_biased(70);
        let vnull = gen_null_mask(&mut rng, n);
        let vals: Vec<Option<String>> = (0..n)
            .map(|r| if vnull[r] { None } else { Some(gen_text(&mut rng, al)) })
            .collect();
        let v = str_vals(&vals);
        let start = gen_start(&mut rng);
        let len = gen_length(&mut rng);
        ctx.eval();
        let argc = format!("start={}|len={}", start_class(start), len_class(len));
        let width = arg_width(start, len);

        // ---- byte substring
        let mut exp_err: Option<String> = None;
        let mut exp: Vec<Val> = Vec::with_capacity(n);
        for s in &vals {
            match s {
                None => exp.push(Val::Null),
                Some(s) => match model_byte_substring(s, start, len) {
                    Ok(x) => exp.push(Val::Str(x)),
                    Err(e) => {
                        exp_err.get_or_insert(e);
                        exp.push(Val::Null);
                    }
                },
            }
        }
        let encs = four_encodings(&mut rng);
        for e in &encs {
            let a = mk_array(&mut rng, e, &v);
            let got = run_op(|| substring(a.as_ref(), start, len));
            let sig = format!("{P}|substring|{}|args={width}", e.name);
            let head = || format!("substring({}, start={start}, length={len:?})\ninput {}", e.dt, dump_vals(&v));
            let row = |r: usize| format!("input {:?}", vals[r]);
            // (kind, detail) of a deviation from the model
            let mut dev: Option<(String, String)> = None;
            let mut hidden: Option<String> = None;
            let mut ok_class = "ok";
            match (&got, &exp_err) {
                (Outcome::Panic(p), _) => {
                    if p.is_model() {
                        ctx.inconclusive(&format!("harness model panic in {sig}: {} @ {}", p.msg, p.loc));
                        continue;
                    }
                    dev = Some((
                        format!("panic|{}|{}", p.file(), clean_msg(&p.msg)),
                        format!("panic: {} @ {}", p.msg, p.loc),
                    ));
                }
                (Outcome::Err(_), Some(_)) => ok_class = "Err-as-model",
                (Outcome::Ok(out), Some(why)) => {
                    // (a valid UTF-8 output here means the boundary rule was not applied)
                    let valid = check_array(out.as_ref());
                    dev = Some((
                        "Ok-across-char-boundary".into(),
                        format!("model: {why}\noutput validity: {valid:?}"),
                    ));
                }
                (Outcome::Err(m), None) => {
                    // No non-null row cuts a character. Is there a *physical* slot that
                    // belongs to no row (bytes under a null, an unreferenced or null-masked
                    // dictionary value) for which the rule does report a cut character?
                    // Then the error came from bytes that are not part of the column.
                    let by_hidden = physical_slots(&a)
                        .iter()
                        .any(|s| model_byte_substring(s, start, len).is_err());
                    if by_hidden {
                        hidden = Some(m.clone());
                        // keep the value check alive on the canonical layout
                        let canon = build(&e.dt, &v);
                        match run_op(|| substring(canon.as_ref(), start, len)) {
                            Outcome::Ok(o) => {
                                dev = diff_strings(&o, &exp, &row);
                                ok_class = "ok-canonical";
                            }
                            Outcome::Err(m2) => {
                                dev = Some((
                                    "unexpected-Err".into(),
                                    format!("Err on the canonical layout: {m2}\nno row cuts a character"),
                                ))
                            }
                            Outcome::Panic(p) => {
                                dev = Some((
                                    format!("panic|{}|{}", p.file(), clean_msg(&p.msg)),
                                    format!("panic on the canonical layout: {} @ {}", p.msg, p.loc),
                                ))
                            }
                        }
                    } else {
                        dev = Some((
                            "unexpected-Err".into(),
                            format!("Err: {m}\nno row (and no hidden slot) cuts a character"),
                        ));
                    }
                }
                (Outcome::Ok(out), None) => dev = diff_strings(out, &exp, &row),
            }
            if let Some(m) = hidden {
                ctx.violation(
                    &format!("{P}|substring|{}|Err-from-bytes-not-in-any-row", e.name),
                    format!(
                        "{}\nErr: {m}\nno non-null row cuts a character; a slot that belongs to no row (bytes under a null / unreferenced dictionary value) does",
                        head()
                    ),
                );
                ctx.count("substr_hidden_byte_errors", 1);
            }
            match dev {
                None => {
                    if n > 0 {
                        ctx.class(format!("substring|{}|{argc}|{al:?}|{ok_class}", e.name));
                    }
                }
                Some((kind, d)) => {
                    // Arguments near / beyond the width of the offset type: one root cause
                    // (narrowing cast or unchecked add) per value type and width class,
                    // whatever the manifestation.
                    let s = if width == "in-range" {
                        format!("{sig}|{kind}")
                    } else {
                        format!("{P}|substring|{}|args={width}|mishandled", value_family(e))
                    };
                    ctx.violation(&s, format!("{}\n[{kind}]\n{d}", head()));
                }
            }
        }

        // ---- substring_by_char (Utf8 / LargeUtf8 only)
        let exp_c: Vec<Val> = vals
            .iter()
            .map(|s| match s {
                None => Val::Null,
                Some(s) => Val::Str(model_char_substring(s, start, len)),
            })
            .collect();
        for k in 0..2 {
            let e = enc_plain(k);
            let a = mk_array(&mut rng, &e, &v);
            let got = run_op(|| -> Result<ArrayRef, ArrowError> {
                Ok(match k {
                    0 => std::sync::Arc::new(substring_by_char(a.as_string::<i32>(), start, len)?),
                    _ => std::sync::Arc::new(substring_by_char(a.as_string::<i64>(), start, len)?),
                })
            });
            let sig = format!("{P}|substring_by_char|{}|args={width}", e.name);
            let head = || format!("substring_by_char({}, start={start}, length={len:?})\ninput {}", e.dt, dump_vals(&v));
            match &got {
                Outcome::Panic(p) => report_panic(ctx, &sig, p, head()),
                Outcome::Err(m) => ctx.violation(
                    &format!("{sig}|unexpected-Err|{}", strip_digits(&first_words(m))),
                    format!("{}\nErr: {m}", head()),
                ),
                Outcome::Ok(out) => {
                    if compare_strings(ctx, &sig, out, &exp_c, &head, &|r| format!("input {:?}", vals[r])) && n > 0 {
                        ctx.class(format!("substring_by_char|{}|{argc}|{al:?}|ok", e.name));
                    }
                }
            }
        }
        ctx.count("substr_rows", n as u64);
        ctx.sample(|| format!("substr start={start} len={len:?} input {}", dump_vals(&v)));
    }
}

// ======================================================= length and concat

fn run_len_concat(ctx: &mut Ctx, _st: &mut State, round: usize, rounds: usize) {
    let sec = "len-concat";
    let total = ctx.tier.pick(12u64, 144_000, 2_400_000);
    for i in chunk_of(ctx.cases(sec, total), round, rounds) {
        if ctx.out_of_time() {
            break;
        }
        let mut rng = ctx.begin(sec, i);
        let al = *rng.pick(&[Alpha::Ascii, Alpha::Tiny, Alpha::Mixed, Alpha::Mixed]);
        let n = rng.len_biased(70);
        let ncols = 2 + rng.below(3);
        let cols: Vec<Vec<Option<String>>> = (0..ncols)
            .map(|_| {
                let m = gen_null_mask(&mut rng, n);
                (0..n).map(|r| if m[r] { None } else { Some(gen_text(&mut rng, al)) }).collect()
            })
            .collect();
        let cvals: Vec<Vec<Val>> = cols.iter().map(|c| str_vals(c)).collect();
        ctx.eval();

        // ---- length / bit_length on the four encodings of column 0
        let exp_len: Vec<Val> = cols[0]
            .iter()
            .map(|s| {
                s.as_ref().map_or(Val::Null, |s| {
                    Val::Int(if broken() == 6 { s.chars().count() } else { s.len() } as i128)
                })
            })
            .collect();
        let exp_bits: Vec<Val> = cols[0]
            .iter()
            .map(|s| s.as_ref().map_or(Val::Null, |s| Val::Int(8 * s.len() as i128)))
            .collect();
        for e in four_encodings(&mut rng) {
            let a = mk_array(&mut rng, &e, &cvals[0]);
            for (name, exp) in [("length", &exp_len), ("bit_length", &exp_bits)] {
                let got = run_op(|| if name == "length" { length(a.as_ref()) } else { bit_length(a.as_ref()) });
                let sig = format!("{P}|{name}|{}", e.name);
                let head = || format!("{name}({})\ninput {}", e.dt, dump_vals(&cvals[0]));
                match &got {
                    Outcome::Panic(p) => report_panic(ctx, &sig, p, head()),
                    Outcome::Err(m) => ctx.violation(
                        &format!("{sig}|unexpected-Err|{}", strip_digits(&first_words(m))),
                        format!("{}\nErr: {m}", head()),
                    ),
                    Outcome::Ok(out) => {
                        let want = match value_type(&e.dt) {
                            DataType::LargeUtf8 => DataType::Int64,
                            _ => DataType::Int32,
                        };
                        if value_type(out.data_type()) != &want {
                            ctx.violation(
                                &format!("{sig}|wrong-output-type"),
                                format!("{}\noutput type {} expected values of {want}", head(), out.data_type()),
                            );
                        } else if compare_strings(ctx, &sig, out, exp, &head, &|r| format!("input {:?}", cols[0][r])) && n > 0 {
                            ctx.class(format!("{name}|{}|{al:?}", e.name));
                        }
                    }
                }
            }
        }

        // ---- element-wise concatenation
        let exp2: Vec<Val> = (0..n)
            .map(|r| match (&cols[0][r], &cols[1][r]) {
                (Some(a), Some(b)) => Val::Str(format!("{a}{b}")),
                (Some(a), None) if broken() == 7 => Val::Str(a.clone()),
                _ => Val::Null,
            })
            .collect();
        let exp_many: Vec<Val> = (0..n)
            .map(|r| {
                let mut s = String::new();
                for c in &cols {
                    match &c[r] {
                        Some(x) => s.push_str(x),
                        None => return Val::Null,
                    }
                }
                Val::Str(s)
            })
            .collect();
        for k in 0..3 {
            let e = enc_plain(k);
            let arrs: Vec<ArrayRef> = cvals.iter().map(|v| mk_array(&mut rng, &e, v)).collect();
            let mut runs: Vec<(&'static str, Outcome<ArrayRef>, &Vec<Val>)> = Vec::new();
            runs.push((
                "concat_elements_dyn",
                run_op(|| concat_elements_dyn(arrs[0].as_ref(), arrs[1].as_ref())),
                &exp2,
            ));
            match k {
                0 => {
                    runs.push((
                        "concat_elements_utf8",
                        run_op(|| {
                            concat_elements_utf8(arrs[0].as_string::<i32>(), arrs[1].as_string::<i32>())
                                .map(|a| std::sync::Arc::new(a) as ArrayRef)
                        }),
                        &exp2,
                    ));
                    runs.push((
                        "concat_elements_utf8_many",
                        run_op(|| {
                            let refs: Vec<&StringArray> = arrs.iter().map(|a| a.as_string::<i32>()).collect();
                            concat_elements_utf8_many(&refs).map(|a| std::sync::Arc::new(a) as ArrayRef)
                        }),
                        &exp_many,
                    ));
                }
                1 => {
                    runs.push((
                        "concat_elements_utf8",
                        run_op(|| {
                            concat_elements_utf8(arrs[0].as_string::<i64>(), arrs[1].as_string::<i64>())
                                .map(|a| std::sync::Arc::new(a) as ArrayRef)
                        }),
                        &exp2,
                    ));
                    runs.push((
                        "concat_elements_utf8_many",
                        run_op(|| {
                            let refs: Vec<&LargeStringArray> = arrs.iter().map(|a| a.as_string::<i64>()).collect();
                            concat_elements_utf8_many(&refs).map(|a| std::sync::Arc::new(a) as ArrayRef)
                        }),
                        &exp_many,
                    ));
                }
                _ => {
                    runs.push((
                        "concat_elements_string_view_array",
                        run_op(|| {
                            concat_elements_string_view_array(arrs[0].as_string_view(), arrs[1].as_string_view())
                                .map(|a| std::sync::Arc::new(a) as ArrayRef)
                        }),
                        &exp2,
                    ));
                }
            }
            for (name, got, exp) in runs {
                let sig = format!("{P}|{name}|{}", e.name);
                let head = || {
                    format!(
                        "{name}({})\nleft {}\nright {}{}",
                        e.dt,
                        dump_vals(&cvals[0]),
                        dump_vals(&cvals[1]),
                        if name.ends_with("many") { format!("\n({ncols} columns)") } else { String::new() }
                    )
                };
                match &got {
                    Outcome::Panic(p) => report_panic(ctx, &sig, p, head()),
                    Outcome::Err(m) => ctx.violation(
                        &format!("{sig}|unexpected-Err|{}", strip_digits(&first_words(m))),
                        format!("{}\nErr: {m}", head()),
                    ),
                    Outcome::Ok(out) => {
                        if out.data_type() != &e.dt {
                            ctx.violation(
                                &format!("{sig}|wrong-output-type"),
                                format!("{}\noutput type {}", head(), out.data_type()),
                            );
                        } else if compare_strings(ctx, &sig, out, exp, &head, &|r| {
                            format!("inputs {:?}", cols.iter().map(|c| c[r].clone()).collect::<Vec<_>>())
                        }) && n > 0
                        {
                            ctx.class(format!("{name}|{}|{al:?}|cols{}", e.name, if name.ends_with("many") { ncols } else { 2 }));
                        }
                    }
                }
            }
        }
        ctx.count("len_concat_rows", n as u64);
        ctx.sample(|| format!("len-concat {} / {}", dump_vals(&cvals[0]), dump_vals(&cvals[1])));
    }
}

pub fn run(ctx: &mut Ctx) {
    type Sec = fn(&mut Ctx, &mut State, usize, usize);
    let secs: [(&str, Sec); 5] = [
        ("like-exh", run_like_exhaustive),
        ("like-rand", run_like_random),
        ("regex", run_regex),
        ("substr", run_substring),
        ("len-concat", run_len_concat),
    ];
    let mut st = State {
        patterns: all_strings(&PAT_ALPHA, ctx.tier.pick(4, 4, 5)),
        unis: None,
        fold: Fold::new(),
        exh_done: 0,
    };
    // The sections are interleaved in rounds so that a run cut short by the wall
    // clock (loaded machine) still has proportional coverage of every section.
    let rounds = ctx.tier.pick(1usize, 16, 64);
    let mut ms = [0u64; 5];
    for round in 0..rounds {
        for (k, (_, f)) in secs.iter().enumerate() {
            let t = std::time::Instant::now();
            f(ctx, &mut st, round, rounds);
            ms[k] += t.elapsed().as_millis() as u64;
        }
    }
    for (k, (name, _)) in secs.iter().enumerate() {
        // evidence only
        ctx.count(&format!("ms_{name}"), ms[k]);
    }
    let exh_all = exh_cases(ctx, &st).len();
    if ctx.only_case.is_none() && ctx.tier != crate::mon::Tier::Tiny && exh_all > 0 && st.exh_done == exh_all && !ctx.out_of_time() {
        // every pattern of this shard's share met every haystack of the universes
        ctx.exhaustive = true;
    }
}
