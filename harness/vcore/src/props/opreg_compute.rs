//! Registry families "cmp", "arith", "agg", "boolean", "bitwise", "temporal", "arity", "string".

use super::*;
use crate::{few_prims, key_dispatch};
use arrow_arith::aggregate as agg;
use arrow_arith::arity::{binary, try_binary, try_unary, unary};
use arrow_arith::temporal::{DatePart, date_part};
use arrow_arith::{bitwise, boolean, numeric};
use arrow_array::cast::AsArray;
use arrow_array::{ArrowNativeTypeOp, Datum};
use arrow_ord::cmp;
use arrow_string::concat_elements::concat_elements_dyn;
use arrow_string::length::{bit_length, length};
use arrow_string::like;
use arrow_string::regexp::{regexp_is_match, regexp_is_match_scalar, regexp_match};
use arrow_string::substring::{substring, substring_by_char};

type DatumFn = fn(&dyn Datum, &dyn Datum) -> Result<ArrayRef, ArrowError>;
type BoolDatumFn = fn(&dyn Datum, &dyn Datum) -> Result<BooleanArray, ArrowError>;

fn arith_fn(name: &str) -> DatumFn {
    match name {
        "add" => numeric::add,
        "sub" => numeric::sub,
        "mul" => numeric::mul,
        "div" => numeric::div,
        "rem" => numeric::rem,
        "add_wrapping" => numeric::add_wrapping,
        "sub_wrapping" => numeric::sub_wrapping,
        "mul_wrapping" => numeric::mul_wrapping,
        o => panic!("model: unknown arith op {o}"),
    }
}

fn bool_datum_fn(name: &str) -> BoolDatumFn {
    match name {
        "eq" => cmp::eq,
        "neq" => cmp::neq,
        "lt" => cmp::lt,
        "lt_eq" => cmp::lt_eq,
        "gt" => cmp::gt,
        "gt_eq" => cmp::gt_eq,
        "distinct" => cmp::distinct,
        "not_distinct" => cmp::not_distinct,
        "like" => like::like,
        "ilike" => like::ilike,
        "nlike" => like::nlike,
        "nilike" => like::nilike,
        "starts_with" => like::starts_with,
        "ends_with" => like::ends_with,
        "contains" => like::contains,
        o => panic!("model: unknown predicate op {o}"),
    }
}

fn is_arith_leaf(dt: &DataType) -> bool {
    use DataType::*;
    dt.is_numeric() || matches!(dt, Timestamp(_, _) | Date32 | Date64 | Duration(_) | Interval(_))
}

fn rhs_type(rng: &mut Rng, op: &str, lt: &DataType) -> DataType {
    use DataType::*;
    let iv = |rng: &mut Rng| Interval(*rng.pick(&[IntervalUnit::YearMonth, IntervalUnit::DayTime, IntervalUnit::MonthDayNano]));
    match lt {
        Decimal32(_, _) | Decimal64(_, _) | Decimal128(_, _) | Decimal256(_, _) => {
            if rng.bool() {
                return lt.clone();
            }
            let (maxp, mk): (u8, fn(u8, i8) -> DataType) = match lt {
                Decimal32(_, _) => (9, Decimal32),
                Decimal64(_, _) => (18, Decimal64),
                Decimal128(_, _) => (38, Decimal128),
                _ => (76, Decimal256),
            };
            let pr = 1 + rng.below(maxp as usize) as u8;
            let s = rng.below(pr as usize + 1) as i8;
            mk(pr, s)
        }
        Timestamp(u, tz) => match rng.below(4) {
            0 => Duration(*u),
            1 | 2 => iv(rng),
            _ => {
                if op.starts_with("sub") {
                    Timestamp(*u, tz.clone())
                } else {
                    Duration(*u)
                }
            }
        },
        Date32 | Date64 => match rng.below(3) {
            0 if op.starts_with("sub") => lt.clone(),
            1 => Duration(*rng.pick(&gens::TIME_UNITS)),
            _ => iv(rng),
        },
        other => other.clone(),
    }
}

fn like_pattern(rng: &mut Rng, vals: &[Val]) -> String {
    let strs: Vec<&str> = vals.iter().filter_map(|v| v.as_str()).collect();
    let base: String = if !strs.is_empty() && rng.chance(3, 4) { (*rng.pick(&strs)).to_string() } else { gens::gen_string(rng) };
    let chars: Vec<char> = base.chars().collect();
    match rng.below(8) {
        0 => base,
        1 => format!("{}%", chars.iter().take(2).collect::<String>()),
        2 => format!("%{}", chars.iter().rev().take(2).collect::<Vec<_>>().into_iter().rev().collect::<String>()),
        3 => format!("%{}%", chars.iter().skip(1).take(2).collect::<String>()),
        4 => chars.iter().map(|c| if rng.chance(1, 4) { '_' } else { *c }).collect(),
        5 => "%".to_string(),
        6 => format!("{}\\%", chars.iter().take(1).collect::<String>()),
        _ => chars.iter().take(3).collect(),
    }
}

const REGEXES: [&str; 12] = ["a", "^a", "b$", ".*", "[ab]+", "\\d", "(a)(b)?", "", "é", "^$", "(?i)A", "\\s"];

fn regex_pattern(rng: &mut Rng, vals: &[Val]) -> String {
    let strs: Vec<&str> = vals.iter().filter_map(|v| v.as_str()).collect();
    if !strs.is_empty() && rng.chance(1, 3) {
        let s: String = rng.pick(&strs).chars().take(3).collect();
        return regex::escape(&s);
    }
    rng.pick(&REGEXES).to_string()
}

fn text<T: std::fmt::Debug>(v: T) -> OpResult {
    Ok(vec![Out::Text(format!("{v:?}"))])
}

macro_rules! agg_prim {
    ($t:ty, $x:expr, $which:expr) => {{
        let a = $x.as_primitive::<$t>();
        let show = |v: Option<<$t as ArrowPrimitiveType>::Native>| -> String {
            match v {
                None => "None".to_string(),
                Some(x) => {
                    let val = x.to_val();
                    if val.f64().map(|f| f.is_nan()).unwrap_or(false) { "NaN".to_string() } else { format!("{val:?}") }
                }
            }
        };
        match $which {
            "agg.sum" => Ok(vec![Out::Text(show(agg::sum(a))), Out::Text(format!("{:?}", agg::sum_checked(a).map(|v| show(v)).map_err(|_| "err")))]),
            "agg.min_max" => Ok(vec![Out::Text(show(agg::min(a))), Out::Text(show(agg::max(a)))]),
            _ => Ok(vec![Out::Text(show(agg::product(a))), Out::Text(format!("{:?}", agg::product_checked(a).map(|v| show(v)).map_err(|_| "err")))]),
        }
    }};
}

macro_rules! agg_bit {
    ($t:ty, $x:expr) => {{
        let a = $x.as_primitive::<$t>();
        text((agg::bit_and(a), agg::bit_or(a), agg::bit_xor(a)))
    }};
}

fn agg_dict<K: ArrowDictionaryKeyType, V: ArrowPrimitiveType>(x: &ArrayRef) -> OpResult
where
    V::Native: Nat,
{
    let d = x.as_dictionary::<K>();
    let Some(t) = d.downcast_dict::<PrimitiveArray<V>>() else { return nyi("downcast_dict") };
    let show = |v: Option<V::Native>| format!("{:?}", v.map(|x| x.to_val()));
    Ok(vec![Out::Text(show(agg::sum_array::<V, _>(t))), Out::Text(show(agg::min_array::<V, _>(t))), Out::Text(show(agg::max_array::<V, _>(t)))])
}

fn agg_run<R: RunEndIndexType, V: ArrowPrimitiveType>(x: &ArrayRef) -> OpResult
where
    V::Native: Nat,
{
    let d = x.as_run::<R>();
    let Some(t) = d.downcast::<PrimitiveArray<V>>() else { return nyi("RunArray::downcast") };
    let show = |v: Option<V::Native>| format!("{:?}", v.map(|x| x.to_val()));
    Ok(vec![Out::Text(show(agg::sum_array::<V, _>(t))), Out::Text(show(agg::min_array::<V, _>(t))), Out::Text(show(agg::max_array::<V, _>(t)))])
}

macro_rules! kv_inner {
    ($V:ty, $K:ty, $f:ident, ($($a:expr),*)) => {
        $f::<$K, $V>($($a),*)
    };
}
macro_rules! kv_outer {
    ($K:ty, $v:tt, $f:ident, $args:tt, $fb:tt) => {
        few_prims!($v, kv_inner, ($K, $f, $args), $fb)
    };
}

macro_rules! bit_bin {
    ($t:ty, $x:expr, $y:expr, $k:expr) => {{
        let (a, b) = ($x.as_primitive::<$t>(), $y.as_primitive::<$t>());
        match $k {
            0 => one(bitwise::bitwise_and(a, b)?),
            1 => one(bitwise::bitwise_or(a, b)?),
            2 => one(bitwise::bitwise_xor(a, b)?),
            3 => one(bitwise::bitwise_and_not(a, b)?),
            4 => one(bitwise::bitwise_shift_left(a, b)?),
            _ => one(bitwise::bitwise_shift_right(a, b)?),
        }
    }};
}
macro_rules! bit_scalar {
    ($t:ty, $x:expr, $s:expr, $k:expr) => {{
        let a = $x.as_primitive::<$t>();
        let s = <<$t as ArrowPrimitiveType>::Native as Nat>::from_val($s);
        match $k {
            0 => one(bitwise::bitwise_and_scalar(a, s)?),
            1 => one(bitwise::bitwise_or_scalar(a, s)?),
            2 => one(bitwise::bitwise_xor_scalar(a, s)?),
            3 => one(bitwise::bitwise_shift_left_scalar(a, s)?),
            _ => one(bitwise::bitwise_shift_right_scalar(a, s)?),
        }
    }};
}
macro_rules! bit_not {
    ($t:ty, $x:expr) => {
        one(bitwise::bitwise_not($x.as_primitive::<$t>())?)
    };
}

macro_rules! arity_un {
    ($t:ty, $x:expr, $fallible:expr) => {{
        let a = $x.as_primitive::<$t>();
        if $fallible {
            // fails on a zero: a kernel that applies the op to null slots fails on layouts that
            // keep zeros (or garbage zeros) under nulls
            let r: PrimitiveArray<$t> = try_unary(a, |v| if v.is_zero() { Err(ArrowError::DivideByZero) } else { v.mul_checked(v) })?;
            let r2: Result<PrimitiveArray<$t>, ArrowError> = a.try_unary(|v| if v.is_zero() { Err(ArrowError::DivideByZero) } else { Ok(v.add_wrapping(v)) });
            Ok(vec![Out::Arr(Arc::new(r)), Out::Arr(Arc::new(r2?))])
        } else {
            let r: PrimitiveArray<$t> = unary(a, |v| v.add_wrapping(v));
            let r2: PrimitiveArray<$t> = a.unary(|v| v.sub_wrapping(v));
            let r3: PrimitiveArray<$t> = a.unary_opt(|v| if v.is_zero() { None } else { Some(v) });
            Ok(vec![Out::Arr(Arc::new(r)), Out::Arr(Arc::new(r2)), Out::Arr(Arc::new(r3))])
        }
    }};
}
macro_rules! arity_bin {
    ($t:ty, $x:expr, $y:expr, $fallible:expr) => {{
        let (a, b) = ($x.as_primitive::<$t>(), $y.as_primitive::<$t>());
        if $fallible {
            let r: PrimitiveArray<$t> = try_binary(a, b, |p, q| p.div_checked(q))?;
            one(r)
        } else {
            let r: PrimitiveArray<$t> = binary(a, b, |p, q| p.add_wrapping(q))?;
            one(r)
        }
    }};
}

pub fn plan(def: &OpDef, rng: &mut Rng, dt: &DataType, vals: &[Val]) -> Option<P> {
    use DataType::*;
    let n = vals.len();
    let lt = leaf(dt).clone();
    let name = def.name;
    match name {
        "eq" | "neq" | "lt" | "lt_eq" | "gt" | "gt_eq" | "distinct" | "not_distinct" => {
            if matches!(dt, Null) {
                return None;
            }
            let f = bool_datum_fn(name);
            // the other side: same type, or the plain value type of an encoded primary
            let rt = if is_encoded(dt) && rng.bool() { lt.clone() } else { dt.clone() };
            match rng.below(3) {
                0 => {
                    let sv = vec![pick_value(rng, dt, vals)];
                    p("array vs scalar".into(), "as", vec![], vec![(rt, sv)], move |x, _a, c| one(f(x, &Scalar::new(c[0].clone()))?))
                }
                1 => {
                    let sv = vec![pick_value(rng, dt, vals)];
                    p("scalar vs array".into(), "sa", vec![], vec![(rt, sv)], move |x, _a, c| one(f(&Scalar::new(c[0].clone()), x)?))
                }
                _ => {
                    let other = companion(rng, dt, vals, &rt, true);
                    p("array vs array".into(), "aa", vec![(rt, other)], vec![], move |x, a, _c| one(f(x, &a[0])?))
                }
            }
        }
        "add" | "sub" | "mul" | "div" | "rem" | "add_wrapping" | "sub_wrapping" | "mul_wrapping" => {
            if !is_arith_leaf(&lt) || (is_encoded(dt) && rng.chance(3, 4)) {
                return None;
            }
            let f = arith_fn(name);
            let rt = rhs_type(rng, name, &lt);
            match rng.below(3) {
                0 => {
                    let sv = vec![pick_value(rng, &rt, if rt == lt { vals } else { &[] })];
                    p(format!("array {name} scalar {rt}"), "as", vec![], vec![(rt, sv)], move |x, _a, c| one_ref(f(x, &Scalar::new(c[0].clone()))?))
                }
                1 => {
                    let sv = vec![pick_value(rng, &rt, if rt == lt { vals } else { &[] })];
                    p(format!("scalar {rt} {name} array"), "sa", vec![], vec![(rt, sv)], move |x, _a, c| one_ref(f(&Scalar::new(c[0].clone()), x)?))
                }
                _ => {
                    let other = companion(rng, dt, vals, &rt, true);
                    p(format!("array {name} array {rt}"), "aa", vec![(rt, other)], vec![], move |x, a, _c| one_ref(f(x, &a[0])?))
                }
            }
        }
        "neg" | "neg_wrapping" => {
            if !is_arith_leaf(&lt) || (is_encoded(dt) && rng.chance(3, 4)) {
                return None;
            }
            let w = name == "neg_wrapping";
            p(String::new(), "-", vec![], vec![], move |x, _a, _c| one_ref(if w { numeric::neg_wrapping(x.as_ref())? } else { numeric::neg(x.as_ref())? }))
        }
        "agg.sum" | "agg.min_max" | "agg.product" => {
            if !lt.is_primitive() {
                return None;
            }
            match dt {
                Dictionary(k, v) if is_few_prim(v) => {
                    let (k, v) = ((**k).clone(), (**v).clone());
                    p("sum_array/min_array/max_array on dictionary".into(), "dict", vec![], vec![], move |x, _a, _c| key_dispatch!(k, kv_outer, (v), agg_dict, (x), (nyi("value type"))))
                }
                RunEndEncoded(r, v) if is_few_prim(v.data_type()) => {
                    let (r, v) = (r.data_type().clone(), v.data_type().clone());
                    p("sum_array/min_array/max_array on run-end".into(), "ree", vec![], vec![], move |x, _a, _c| crate::run_dispatch!(r, kv_outer, (v), agg_run, (x), (nyi("value type"))))
                }
                d if d.is_primitive() => p(String::new(), "plain", vec![], vec![], move |x, _a, _c| {
                    downcast_primitive! {
                        (x.data_type()) => (agg_prim, x, name),
                        o => nyi(&format!("aggregate of {o}"))
                    }
                }),
                _ => None,
            }
        }
        "agg.bit" => {
            if !dt.is_integer() {
                return None;
            }
            p(String::new(), "-", vec![], vec![], move |x, _a, _c| {
                downcast_integer! {
                    (x.data_type()) => (agg_bit, x),
                    o => nyi(&format!("bit aggregate of {o}"))
                }
            })
        }
        "agg.bool" => match dt {
            Boolean => p(String::new(), "-", vec![], vec![], |x, _a, _c| {
                let b = x.as_boolean();
                text((agg::bool_and(b), agg::bool_or(b), agg::min_boolean(b), agg::max_boolean(b), b.true_count(), b.false_count()))
            }),
            _ => None,
        },
        "agg.bytes_min_max" => match dt {
            Utf8 => p(String::new(), "-", vec![], vec![], |x, _a, _c| text((agg::min_string(x.as_string::<i32>()), agg::max_string(x.as_string::<i32>())))),
            LargeUtf8 => p(String::new(), "-", vec![], vec![], |x, _a, _c| text((agg::min_string(x.as_string::<i64>()), agg::max_string(x.as_string::<i64>())))),
            Utf8View => p(String::new(), "-", vec![], vec![], |x, _a, _c| text((agg::min_string_view(x.as_string_view()), agg::max_string_view(x.as_string_view())))),
            Binary => p(String::new(), "-", vec![], vec![], |x, _a, _c| text((agg::min_binary(x.as_binary::<i32>()), agg::max_binary(x.as_binary::<i32>())))),
            LargeBinary => p(String::new(), "-", vec![], vec![], |x, _a, _c| text((agg::min_binary(x.as_binary::<i64>()), agg::max_binary(x.as_binary::<i64>())))),
            BinaryView => p(String::new(), "-", vec![], vec![], |x, _a, _c| text((agg::min_binary_view(x.as_binary_view()), agg::max_binary_view(x.as_binary_view())))),
            FixedSizeBinary(_) => p(String::new(), "-", vec![], vec![], |x, _a, _c| text((agg::min_fixed_size_binary(x.as_fixed_size_binary()), agg::max_fixed_size_binary(x.as_fixed_size_binary())))),
            _ => None,
        },
        "and" | "or" | "and_kleene" | "or_kleene" | "and_not" => match dt {
            Boolean => {
                let other = bool_col(rng, n, true);
                p(String::new(), "-", vec![(Boolean, other)], vec![], move |x, a, _c| {
                    let (l, r) = (x.as_boolean(), a[0].as_boolean());
                    one(match name {
                        "and" => boolean::and(l, r)?,
                        "or" => boolean::or(l, r)?,
                        "and_kleene" => boolean::and_kleene(l, r)?,
                        "or_kleene" => boolean::or_kleene(l, r)?,
                        _ => boolean::and_not(l, r)?,
                    })
                })
            }
            _ => None,
        },
        "not" => match dt {
            Boolean => p(String::new(), "-", vec![], vec![], |x, _a, _c| one(boolean::not(x.as_boolean())?)),
            _ => None,
        },
        "is_null" => p(String::new(), "-", vec![], vec![], |x, _a, _c| one(boolean::is_null(x.as_ref())?)),
        "is_not_null" => p(String::new(), "-", vec![], vec![], |x, _a, _c| one(boolean::is_not_null(x.as_ref())?)),
        "bitwise.binary" => {
            if !dt.is_integer() {
                return None;
            }
            let k = rng.below(6);
            let mut other = companion(rng, dt, vals, dt, true);
            if k >= 4 {
                // shift amounts within the width
                for v in other.iter_mut() {
                    if let Val::Int(i) = v {
                        *i = i.rem_euclid(8);
                    }
                }
            }
            p(format!("kind {k}"), &format!("k{k}"), vec![(dt.clone(), other)], vec![], move |x, a, _c| {
                downcast_integer! {
                    (x.data_type()) => (bit_bin, x, (a[0]), k),
                    o => nyi(&format!("bitwise on {o}"))
                }
            })
        }
        "bitwise.scalar" => {
            if !dt.is_integer() {
                return None;
            }
            let k = rng.below(5);
            let mut s = pick_value(rng, dt, vals);
            if k >= 3 {
                if let Val::Int(i) = &mut s {
                    *i = i.rem_euclid(8);
                }
            }
            p(format!("kind {k} scalar {s:?}"), &format!("k{k}"), vec![], vec![], move |x, _a, _c| {
                downcast_integer! {
                    (x.data_type()) => (bit_scalar, x, (&s), k),
                    o => nyi(&format!("bitwise on {o}"))
                }
            })
        }
        "bitwise.not" => {
            if !dt.is_integer() {
                return None;
            }
            p(String::new(), "-", vec![], vec![], move |x, _a, _c| {
                downcast_integer! {
                    (x.data_type()) => (bit_not, x),
                    o => nyi(&format!("bitwise on {o}"))
                }
            })
        }
        "date_part" => {
            if !matches!(lt, Date32 | Date64 | Time32(_) | Time64(_) | Timestamp(_, _) | Interval(_) | Duration(_)) {
                return None;
            }
            const PARTS: [DatePart; 18] = [
                DatePart::Quarter,
                DatePart::Year,
                DatePart::YearISO,
                DatePart::Month,
                DatePart::Week,
                DatePart::WeekISO,
                DatePart::Day,
                DatePart::DayOfWeekSunday0,
                DatePart::DayOfWeekMonday0,
                DatePart::DayOfWeekSunday1,
                DatePart::DayOfWeekMonday1,
                DatePart::DayOfYear,
                DatePart::Hour,
                DatePart::Minute,
                DatePart::Second,
                DatePart::Millisecond,
                DatePart::Microsecond,
                DatePart::Nanosecond,
            ];
            let part = *rng.pick(&PARTS);
            p(format!("{part}"), &format!("{part}"), vec![], vec![], move |x, _a, _c| one_ref(date_part(x.as_ref(), part)?))
        }
        "arity.unary" | "arity.try_unary" => {
            if !dt.is_primitive() {
                return None;
            }
            let fallible = name == "arity.try_unary";
            p(String::new(), "-", vec![], vec![], move |x, _a, _c| {
                downcast_primitive! {
                    (x.data_type()) => (arity_un, x, fallible),
                    o => nyi(&format!("arity on {o}"))
                }
            })
        }
        "arity.binary" | "arity.try_binary" => {
            if !dt.is_primitive() {
                return None;
            }
            let fallible = name == "arity.try_binary";
            let other = companion(rng, dt, vals, dt, true);
            p(String::new(), "-", vec![(dt.clone(), other)], vec![], move |x, a, _c| {
                downcast_primitive! {
                    (x.data_type()) => (arity_bin, x, (a[0]), fallible),
                    o => nyi(&format!("arity on {o}"))
                }
            })
        }
        "length" | "bit_length" => {
            let ok = is_string(&lt) || is_binary(&lt) || matches!(lt, FixedSizeBinary(_)) || (name == "length" && matches!(lt, List(_) | LargeList(_) | ListView(_) | LargeListView(_) | FixedSizeList(_, _)));
            if !ok {
                return None;
            }
            let bl = name == "bit_length";
            p(String::new(), "-", vec![], vec![], move |x, _a, _c| one_ref(if bl { bit_length(x.as_ref())? } else { length(x.as_ref())? }))
        }
        "like" | "ilike" | "nlike" | "nilike" | "starts_with" | "ends_with" | "contains" => {
            let bin_ok = matches!(name, "starts_with" | "ends_with" | "contains") && is_binary(&lt);
            if !(is_string(&lt) || bin_ok) {
                return None;
            }
            let f = bool_datum_fn(name);
            let mk = |rng: &mut Rng| -> Val {
                if is_string(&lt) {
                    Val::Str(like_pattern(rng, vals))
                } else {
                    let b: Vec<&[u8]> = vals.iter().filter_map(|v| v.as_bytes()).collect();
                    if b.is_empty() { Val::Bytes(vec![]) } else { Val::Bytes(rng.pick(&b).iter().take(2).cloned().collect()) }
                }
            };
            // pattern operand: the plain string type (also for dictionary-encoded primaries)
            if rng.bool() {
                let pat = vec![mk(rng)];
                p(format!("scalar pattern {:?}", pat[0]), "scalar", vec![], vec![(lt.clone(), pat)], move |x, _a, c| one(f(x, &Scalar::new(c[0].clone()))?))
            } else {
                let pats: Vec<Val> = (0..n).map(|_| if rng.chance(1, 8) { Val::Null } else { mk(rng) }).collect();
                p("array patterns".into(), "array", vec![(lt.clone(), pats)], vec![], move |x, a, _c| one(f(x, &a[0])?))
            }
        }
        "regexp_is_match" => {
            if !is_string(dt) {
                return None;
            }
            let flags: Option<String> = if rng.chance(1, 3) { Some("i".into()) } else { None };
            if rng.bool() {
                let re = regex_pattern(rng, vals);
                p(format!("scalar {re:?} flags {flags:?}"), "scalar", vec![], vec![], move |x, _a, _c| {
                    let fl = flags.as_deref();
                    match x.data_type() {
                        Utf8 => one(regexp_is_match_scalar(x.as_string::<i32>(), &re, fl)?),
                        LargeUtf8 => one(regexp_is_match_scalar(x.as_string::<i64>(), &re, fl)?),
                        _ => one(regexp_is_match_scalar(x.as_string_view(), &re, fl)?),
                    }
                })
            } else {
                let pats: Vec<Val> = (0..n).map(|_| if rng.chance(1, 8) { Val::Null } else { Val::Str(regex_pattern(rng, vals)) }).collect();
                p("array patterns".into(), "array", vec![(Utf8, pats)], vec![], move |x, a, _c| {
                    let pa = a[0].as_string::<i32>();
                    match x.data_type() {
                        Utf8 => one(regexp_is_match(x.as_string::<i32>(), pa, None::<&StringArray>)?),
                        LargeUtf8 => one(regexp_is_match(x.as_string::<i64>(), pa, None::<&StringArray>)?),
                        _ => one(regexp_is_match(x.as_string_view(), pa, None::<&StringArray>)?),
                    }
                })
            }
        }
        "regexp_match" => {
            if !is_string(dt) {
                return None;
            }
            if rng.bool() {
                let re = vec![Val::Str(regex_pattern(rng, vals))];
                p(format!("scalar {:?}", re[0]), "scalar", vec![], vec![(dt.clone(), re)], move |x, _a, c| one_ref(regexp_match(x.as_ref(), &Scalar::new(c[0].clone()), None)?))
            } else {
                let pats: Vec<Val> = (0..n).map(|_| if rng.chance(1, 8) { Val::Null } else { Val::Str(regex_pattern(rng, vals)) }).collect();
                p("array patterns".into(), "array", vec![(dt.clone(), pats)], vec![], move |x, a, _c| one_ref(regexp_match(x.as_ref(), &a[0], None)?))
            }
        }
        "substring" => {
            if !(is_string(&lt) || is_binary(&lt) || matches!(lt, FixedSizeBinary(_))) {
                return None;
            }
            let start = rng.range(-70, 70);
            let len = if rng.bool() { None } else { Some(rng.below(70) as u64) };
            p(format!("start {start} length {len:?}"), if len.is_some() { "len" } else { "open" }, vec![], vec![], move |x, _a, _c| one_ref(substring(x.as_ref(), start, len)?))
        }
        "substring_by_char" => {
            if !matches!(dt, Utf8 | LargeUtf8) {
                return None;
            }
            let start = rng.range(-40, 40);
            let len = if rng.bool() { None } else { Some(rng.below(40) as u64) };
            p(format!("start {start} length {len:?}"), if len.is_some() { "len" } else { "open" }, vec![], vec![], move |x, _a, _c| match x.data_type() {
                Utf8 => one(substring_by_char(x.as_string::<i32>(), start, len)?),
                _ => one(substring_by_char(x.as_string::<i64>(), start, len)?),
            })
        }
        "concat_elements" => {
            if !(is_string(dt) || is_binary(dt) || matches!(dt, FixedSizeBinary(_))) {
                return None;
            }
            let other = companion(rng, dt, vals, dt, true);
            p(String::new(), "-", vec![(dt.clone(), other)], vec![], move |x, a, _c| one_ref(concat_elements_dyn(x.as_ref(), a[0].as_ref())?))
        }
        other => panic!("model: unknown compute op {other}"),
    }
}
