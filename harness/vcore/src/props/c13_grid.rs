//! C13 inputs: the finite type grid, deterministic boundary columns, text
//! generators and signature names.

use crate::gens::{self, TypeCfg};
use crate::rng::Rng;
use crate::val::Val;
use arrow_buffer::i256;
use arrow_schema::{DataType, Field, Fields, IntervalUnit, TimeUnit, UnionFields, UnionMode};
use chrono::NaiveDate;
use std::sync::Arc;

use super::c13_model::{dec_params, int_range, is_list_family, is_string, list_child, unit_mult};

fn f(name: &str, dt: DataType) -> Arc<Field> {
    Arc::new(Field::new(name, dt, true))
}

fn item(dt: DataType) -> Arc<Field> {
    f("item", dt)
}

fn dict(k: DataType, v: DataType) -> DataType {
    DataType::Dictionary(Box::new(k), Box::new(v))
}

fn ree(k: DataType, v: DataType) -> DataType {
    DataType::RunEndEncoded(Arc::new(Field::new("run_ends", k, false)), f("values", v))
}

fn strukt(fs: &[(&str, DataType)]) -> DataType {
    DataType::Struct(Fields::from(
        fs.iter().map(|(n, t)| Field::new(*n, t.clone(), true)).collect::<Vec<_>>(),
    ))
}

fn map(k: DataType, v: DataType) -> DataType {
    let e = strukt_kv(k, v);
    DataType::Map(Arc::new(Field::new("entries", e, false)), false)
}

fn strukt_kv(k: DataType, v: DataType) -> DataType {
    DataType::Struct(Fields::from(vec![Field::new("key", k, false), Field::new("value", v, true)]))
}

fn union(mode: UnionMode) -> DataType {
    DataType::Union(
        UnionFields::try_new(
            vec![0, 1],
            vec![Field::new("i", DataType::Int32, true), Field::new("s", DataType::Utf8, true)],
        )
        .unwrap(),
        mode,
    )
}

pub fn tz(s: &str) -> Option<Arc<str>> {
    Some(Arc::from(s))
}

/// The finite grid over which the cast matrix is explored exhaustively.
pub fn grid_types() -> Vec<DataType> {
    use DataType::*;
    use TimeUnit::*;
    let mut v = vec![
        Null, Boolean, Int8, Int16, Int32, Int64, UInt8, UInt16, UInt32, UInt64, Float16, Float32, Float64,
        Date32, Date64,
        Time32(Second), Time32(Millisecond), Time64(Microsecond), Time64(Nanosecond),
        Timestamp(Second, None), Timestamp(Millisecond, None), Timestamp(Microsecond, None), Timestamp(Nanosecond, None),
        Timestamp(Second, tz("+00:00")), Timestamp(Second, tz("+05:30")), Timestamp(Millisecond, tz("+05:30")),
        Timestamp(Microsecond, tz("-08:00")), Timestamp(Nanosecond, tz("+14:00")),
        Duration(Second), Duration(Millisecond), Duration(Microsecond), Duration(Nanosecond),
        Interval(IntervalUnit::YearMonth), Interval(IntervalUnit::DayTime), Interval(IntervalUnit::MonthDayNano),
        Decimal32(9, 2), Decimal32(9, 9), Decimal32(5, -2),
        Decimal64(18, 4), Decimal64(10, 0),
        Decimal128(38, 10), Decimal128(20, 0), Decimal128(38, 38), Decimal128(10, -3),
        Decimal256(76, 20), Decimal256(40, 5), Decimal256(50, -5), Decimal256(76, 76),
        Utf8, LargeUtf8, Utf8View, Binary, LargeBinary, BinaryView, FixedSizeBinary(4), FixedSizeBinary(8),
        dict(Int8, Utf8), dict(Int32, Int32), dict(UInt16, Utf8View), dict(Int16, Decimal128(38, 10)),
        dict(UInt8, Int64), dict(Int64, Binary), dict(Int32, Timestamp(Second, None)), dict(Int32, Date32),
        dict(Int32, Float64), dict(UInt32, Boolean), dict(Int32, Duration(Second)), dict(Int32, Duration(Millisecond)),
        dict(Int32, Duration(Microsecond)), dict(Int32, Duration(Nanosecond)), dict(Int32, Interval(IntervalUnit::YearMonth)),
        dict(Int32, Interval(IntervalUnit::DayTime)), dict(Int32, Interval(IntervalUnit::MonthDayNano)),
        dict(Int32, Time32(Second)), dict(Int32, Date64), dict(Int16, FixedSizeBinary(4)),
        ree(Int16, Int32), ree(Int32, Utf8), ree(Int64, Float64), ree(Int32, Timestamp(Millisecond, None)),
        List(item(Int32)), LargeList(item(Utf8)), ListView(item(Int64)), LargeListView(item(Int32)),
        FixedSizeList(item(Int32), 2), FixedSizeList(item(Int32), 1), FixedSizeList(item(Utf8), 3),
        FixedSizeList(item(Int64), 1), FixedSizeList(item(Int32), 0), FixedSizeList(item(List(item(Int32))), 1),
        List(item(Utf8)), List(item(Int64)), List(item(List(item(Int32)))), List(item(Timestamp(Second, None))),
        LargeList(item(Float64)), ListView(item(Utf8)), List(item(ree(Int32, Int32))),
        strukt(&[("a", Int32), ("b", Utf8)]), strukt(&[("b", Utf8), ("a", Int32)]),
        strukt(&[("a", Int64), ("b", LargeUtf8)]), strukt(&[("x", Int8), ("y", Utf8View)]),
        strukt(&[("b", Int64), ("a", Interval(IntervalUnit::DayTime))]),
        map(Utf8, Int32), map(LargeUtf8, Int64), map(Int32, Utf8),
        union(UnionMode::Dense), union(UnionMode::Sparse),
    ];
    v.dedup();
    v
}

pub fn unit_abbrev(u: &TimeUnit) -> &'static str {
    match u {
        TimeUnit::Second => "s",
        TimeUnit::Millisecond => "ms",
        TimeUnit::Microsecond => "us",
        TimeUnit::Nanosecond => "ns",
    }
}

/// Parameter-free type name used in signatures.
pub fn sig_type(dt: &DataType) -> String {
    use DataType::*;
    let sg = |s: &i8| if *s < 0 { "-" } else { "+" };
    match dt {
        Timestamp(u, t) => format!("Timestamp({}{})", unit_abbrev(u), if t.is_some() { ",tz" } else { "" }),
        Time32(u) => format!("Time32({})", unit_abbrev(u)),
        Time64(u) => format!("Time64({})", unit_abbrev(u)),
        Duration(u) => format!("Duration({})", unit_abbrev(u)),
        Decimal32(_, s) => format!("Decimal32({})", sg(s)),
        Decimal64(_, s) => format!("Decimal64({})", sg(s)),
        Decimal128(_, s) => format!("Decimal128({})", sg(s)),
        Decimal256(_, s) => format!("Decimal256({})", sg(s)),
        FixedSizeBinary(_) => "FixedSizeBinary".into(),
        Dictionary(_, v) => format!("Dict<{}>", sig_type(v)),
        RunEndEncoded(_, v) => format!("REE<{}>", sig_type(v.data_type())),
        List(x) => format!("List<{}>", sig_type(x.data_type())),
        LargeList(x) => format!("LargeList<{}>", sig_type(x.data_type())),
        ListView(x) => format!("ListView<{}>", sig_type(x.data_type())),
        LargeListView(x) => format!("LargeListView<{}>", sig_type(x.data_type())),
        FixedSizeList(x, n) => format!("FSL{}<{}>", if *n == 1 { "1" } else { "n" }, sig_type(x.data_type())),
        Struct(fs) => format!(
            "Struct<{}>",
            fs.iter().map(|x| sig_type(x.data_type())).collect::<Vec<_>>().join(",")
        ),
        Map(e, _) => match e.data_type() {
            Struct(kv) if kv.len() == 2 => format!("Map<{},{}>", sig_type(kv[0].data_type()), sig_type(kv[1].data_type())),
            _ => "Map<?>".into(),
        },
        Union(fs, m) => format!(
            "Union{}<{}>",
            if *m == UnionMode::Dense { "D" } else { "S" },
            fs.iter().map(|(_, x)| sig_type(x.data_type())).collect::<Vec<_>>().join(",")
        ),
        Interval(u) => format!("Interval({u:?})"),
        other => format!("{other:?}"),
    }
}

pub fn has_small_dict(dt: &DataType) -> bool {
    use DataType::*;
    match dt {
        Dictionary(k, v) => matches!(**k, Int8 | UInt8) || has_small_dict(v),
        RunEndEncoded(_, v) => has_small_dict(v.data_type()),
        List(x) | LargeList(x) | ListView(x) | LargeListView(x) | FixedSizeList(x, _) | Map(x, _) => {
            has_small_dict(x.data_type())
        }
        Struct(fs) => fs.iter().any(|x| has_small_dict(x.data_type())),
        Union(fs, _) => fs.iter().any(|(_, x)| has_small_dict(x.data_type())),
        _ => false,
    }
}

// ------------------------------------------------------------ boundary columns

fn int_boundaries(lo: i128, hi: i128) -> Vec<i128> {
    let mut s: Vec<i128> = vec![lo, lo + 1, -1, 0, 1, hi - 1, hi, 11, -11, 12, 13, 100];
    for k in [7u32, 8, 15, 16, 24, 31, 32, 53, 63, 64] {
        for d in -1i128..=1 {
            s.push((1i128 << k) + d);
            s.push(-(1i128 << k) + d);
        }
    }
    for p in [2u32, 3, 5, 9, 10, 18, 19] {
        let t = 10i128.pow(p);
        s.extend([t, t - 1, -t, -t + 1, t / 2, -(t / 2), t * 3 / 2]);
    }
    s.extend([999, 1000, 1001, -999, -1000, -1001, 1999, -1999, 86_399, 86_400, -86_400, -86_401]);
    s.extend([i64::MAX as i128 / 1000, i64::MAX as i128 / 1000 + 1, i64::MIN as i128 / 1000, i64::MIN as i128 / 1000 - 1]);
    s.extend([i64::MAX as i128 / 1_000_000 + 1, i64::MAX as i128 / 1_000_000_000 + 1, i64::MIN as i128 / 1_000_000_000 - 1]);
    s.retain(|x| *x >= lo && *x <= hi);
    s.sort();
    s.dedup();
    s
}

fn float_boundaries() -> Vec<f64> {
    let mut s = vec![
        0.0, 0.5, 1.0, 1.5, 2.5, 0.1, 1e-7, 0.005, 0.015, 0.025, 9.995, 0.994999, 123.456, 127.0, 127.5, 128.0, 255.0, 255.9,
        256.0, 2048.0, 2049.0, 32767.0, 32768.0, 65504.0, 65519.0, 65520.0, 65535.0, 65536.0, 16777216.0, 16777217.0,
        2147483647.0, 2147483648.0, 4294967295.0, 4294967296.0, 9007199254740992.0, 9007199254740993.0,
        9223372036854775807.0, 9223372036854774784.0, 18446744073709551615.0, 1e19, 1e20, 3.4028234663852886e38,
        3.4028235677973366e38, 1e39, 1e76, 1e300, f64::MAX, f64::MIN_POSITIVE, 5e-324, 5.960464477539063e-8,
        6.103515625e-5, 1.401298464324817e-45, 0.30000000000000004, 99999999.5, 999999999.5, 1e9, 1e10, 1e18,
    ];
    let neg: Vec<f64> = s.iter().map(|x| -*x).collect();
    s.extend(neg);
    s.extend([f64::INFINITY, f64::NEG_INFINITY, f64::NAN]);
    s
}

fn chrono_day_bounds() -> (i128, i128) {
    let e = NaiveDate::from_ymd_opt(1970, 1, 1).unwrap();
    ((NaiveDate::MIN - e).num_days() as i128, (NaiveDate::MAX - e).num_days() as i128)
}

fn ts_boundaries(u: &TimeUnit) -> Vec<i128> {
    let m = unit_mult(u);
    let (dmin, dmax) = chrono_day_bounds();
    let secs: Vec<i128> = vec![
        0, 1, -1, 59, 60, 3599, 86_399, 86_400, -86_400, -86_401, 951_782_400, 951_868_799, -62_135_596_800,
        -62_135_596_801, 253_402_300_799, 253_402_300_800, -62_135_596_800 + 50_400, 253_402_300_799 - 50_400,
        dmin * 86_400, dmin * 86_400 - 1, dmin * 86_400 + 86_400, dmax * 86_400 + 86_399, dmax * 86_400 + 86_400,
        dmax * 86_400 - 1, 1_600_000_000, -1_600_000_000,
    ];
    let mut s: Vec<i128> = vec![];
    for x in secs {
        for fr in [0, 1, m - 1, m / 2] {
            s.push(x * m + fr);
        }
    }
    s.extend(int_boundaries(i64::MIN as i128, i64::MAX as i128));
    s.retain(|x| *x >= i64::MIN as i128 && *x <= i64::MAX as i128);
    s.sort();
    s.dedup();
    s
}

fn dec_boundaries(p: u8, s: i8) -> Vec<num_bigint::BigInt> {
    use num_bigint::BigInt;
    let ten = |k: u32| -> BigInt { BigInt::from(10u8).pow(k) };
    let b: BigInt = ten(p as u32) - 1;
    let mut v: Vec<BigInt> = vec![
        BigInt::from(0),
        BigInt::from(1),
        BigInt::from(5),
        BigInt::from(9),
        BigInt::from(10),
        BigInt::from(127),
        BigInt::from(128),
        BigInt::from(255),
        BigInt::from(256),
        BigInt::from(12345),
        BigInt::from(i32::MAX),
        BigInt::from(i32::MAX) + 1,
        BigInt::from(i64::MAX),
        BigInt::from(i64::MAX) + 1,
        BigInt::from(u64::MAX),
        BigInt::from(u64::MAX) + 1,
        BigInt::from(i128::MAX),
        b.clone(),
        b.clone() - 1,
        ten(p as u32 - 1),
    ];
    if s > 0 {
        let one: BigInt = ten(s as u32);
        let h: BigInt = &one / 2;
        v.extend([
            one.clone(),
            h.clone(),
            &h - 1,
            &h + 1,
            &one + &h,
            &one * 2 + &h,
            &one - 1,
            &one * 127,
            &one * 128,
            &one * 128 - 1,
            &one * 255 + &h,
            &one * 32768,
            &one * 2147483647u32,
            &one * 2147483648u32,
        ]);
        if s > 1 {
            v.push(ten(s as u32 - 1) * 5);
            v.push(ten(s as u32 - 1) * 4 + ten(s as u32 - 1) - 1);
        }
    }
    let neg: Vec<BigInt> = v.iter().map(|x| -x.clone()).collect();
    v.extend(neg);
    v.retain(|x| {
        let a = if *x < BigInt::from(0) { -x.clone() } else { x.clone() };
        a <= b
    });
    v.sort();
    v.dedup();
    v
}

fn big_to_i256(x: &num_bigint::BigInt) -> i256 {
    let mut bytes = x.to_signed_bytes_le();
    let fill = if *x < num_bigint::BigInt::from(0) { 0xFF } else { 0 };
    bytes.resize(32, fill);
    let mut arr = [0u8; 32];
    arr.copy_from_slice(&bytes[..32]);
    i256::from_le_bytes(arr)
}

pub const TEXTS: &[&str] = &[
    // integers
    "0", "1", "-1", "+1", "007", "-0", "127", "128", "-128", "-129", "255", "256", "32767", "32768", "-32768", "-32769",
    "65535", "65536", "2147483647", "2147483648", "-2147483648", "-2147483649", "4294967295", "4294967296",
    "9223372036854775807", "9223372036854775808", "-9223372036854775808", "-9223372036854775809",
    "18446744073709551615", "18446744073709551616", "340282366920938463463374607431768211456", " 1", "1 ", "\t1\n",
    " -1 ", "1 2", "1_000", "1,000", "0x10", "1e3", "1E3", "1.0", "1.5", "--1", "+-1", "+", "-", "", " ", "١٢٣",
    "1\u{a0}",
    // floats
    "0.0", "-0.0", ".5", "5.", "0.1", "1e-7", "1.5e300", "1e400", "-1e400", "1e-400", "3.4028235e38", "3.4028236e38",
    "65504", "65520", "65519.99", "6.1e-5", "5.96e-8", "2.98e-8", "inf", "-inf", "+inf", "Infinity", "-infinity", "NaN",
    "nan", "-nan", "1.7976931348623157e308", "4.9e-324", "2.2250738585072014e-308", "9007199254740993", "0.1e1",
    "1e+2", "1.e2", "1e", "e1", "1f", "0.30000000000000004", "123456789.123456789",
    // decimals
    "123.456", "-123.456", "0.005", "0.015", "0.025", "-0.005", "9.995", "99.995", "0.994999", "999999999",
    "9999999999", "0.000000001", "99999999999999999999999999999999999999", "100000000000000000000000000000000000000",
    "-99999999999999999999999999999999999999",
    "9999999999999999999999999999999999999999999999999999999999999999999999999999",
    "10000000000000000000000000000000000000000000000000000000000000000000000000000",
    "0.99999999999999999999999999999999999999", "1.2.3", "1..2", "+.5", "-.5", "000.100", "12345.67", "-12345.678",
    // booleans
    "true", "false", "TRUE", "False", "t", "f", "tr", "fals", "yes", "no", "y", "n", "on", "off", "of", "  true  ",
    "truee", "2", "-1e0", "T", "ON ",
    // dates
    "1970-01-01", "1969-12-31", "2000-02-29", "2001-02-29", "0001-01-01", "0000-01-01", "9999-12-31", "2020-13-01",
    "2020-00-10", "2020-01-32", "2020-1-1", "2020-01-1", "2020-1-01", "20200101", "+10000-01-01", "-0001-01-01",
    "+2020-01-01", "+5881580-07-11", "+5881580-07-12", "-5877641-06-23", "-5877641-06-22", "+262143-01-01",
    "2020/01/01", "2020-01-01 ", "01-01-2020", "1970-01-01T00:00:00", "1970-01-01T00:00:00Z",
    "1970-01-02T23:59:59.999+14:00",
    // timestamps
    "2020-01-01T12:34:56", "2020-01-01 12:34:56", "2020-01-01t12:34:56z", "2020-01-01T12:34:56Z",
    "2020-01-01T12:34:56.1Z", "2020-01-01T12:34:56.123456789Z", "2020-01-01T12:34:56.1234567891Z",
    "2020-01-01T12:34:56.999999999999Z", "2020-01-01T12:34:56+05:30", "2020-01-01T12:34:56-08:00",
    "2020-01-01T12:34:56 +05:30", "2020-01-01T12:34:56+0530", "2020-01-01T12:34:56+05", "2020-01-01T12:34:56 UTC",
    "2020-01-01T23:59:60Z", "2020-01-01T24:00:00Z", "2020-01-01T12:34Z", "2020-01-01 123456",
    "2020-01-01 123456+01:00", "1677-09-21T00:12:43.145224192Z", "1677-09-21T00:12:43.145224191Z",
    "2262-04-11T23:47:16.854775807Z", "2262-04-11T23:47:16.854775808Z", "0001-01-01T00:00:00Z",
    "9999-12-31T23:59:59.999999999Z", "1969-12-31T23:59:59.999Z", "1969-12-31T23:59:59.999999999-00:01",
    "2020-01-01T12:34:56.", "1969-12-31T23:59:59.5Z", "1960-06-15T01:02:03.000001Z",
    // times
    "00:00:00", "23:59:59", "23:59:59.999999999", "12:34:56.789", "24:00:00", "23:60:00", "23:59:60", "12:34",
    "1:02:03", "1:02 pm", "12:00 AM", "12:00 PM", "11:59:59 PM", "13:00 PM", "0:00", "123456",
    "12:34:56.1234567891", "12:34:56 ", "86399", "86400",
    // intervals
    "1 year", "1 years 2 mons", "-1 years 11 mons", "13 months", "1.5 years", "1 day",
    "1 days 2 hours 3 mins 4.005 secs", "-1 days", "1 day -1 hour", "1 month 1 day 1 ns", "0.5 days", "1 week",
    "1 decade", "1 century", "1 millennium", "1 fortnight", "P1Y2M", "-1 day +2 hours",
    "1 mons 1 days 0.000000001 secs", "2147483647 months", "2147483648 months", "178956971 years", "1 hour 1 sec",
    "1 YEAR", "interval 1 day", "1 microsecond", "1 ms", "1 nanosecond", "0 secs", "-0.500 secs",
    "1 days -0.500 secs",
    // misc
    "abc", "NULL", "null", "é", "日本語", "\0", "😀",
];

fn bytes_boundaries() -> Vec<Vec<u8>> {
    vec![
        vec![],
        b"a".to_vec(),
        b"abcd".to_vec(),
        b"abcdefgh".to_vec(),
        b"123".to_vec(),
        "é€😀".as_bytes().to_vec(),
        "日本語!".as_bytes().to_vec(),
        vec![0xff],
        vec![0xc3, 0x28],
        vec![0xe2, 0x82],
        vec![0, 0, 0, 0],
        vec![0xff, 0xfe, 0xfd, 0xfc],
        vec![0x61, 0x62, 0x63, 0x80],
        vec![0xf0, 0x9f, 0x98, 0x80],
        vec![1, 2, 3, 4, 5, 6, 7, 0xff],
        vec![0xed, 0xa0, 0x80],
        b"this is a longer value that does not fit an inline view".to_vec(),
    ]
}

/// Deterministic boundary column of `dt` (ends with a null where the type allows one).
pub fn boundary_vals(dt: &DataType) -> Vec<Val> {
    let mut v = boundary_nonnull(dt, 0);
    if gens::can_be_null(dt) {
        v.push(Val::Null);
    }
    if has_small_dict(dt) && v.len() > 90 {
        let last = v.pop();
        v.truncate(89);
        v.extend(last);
    }
    v
}

fn boundary_nonnull(dt: &DataType, depth: u32) -> Vec<Val> {
    use DataType::*;
    if let Some((lo, hi)) = int_range(dt) {
        return int_boundaries(lo, hi).into_iter().map(Val::Int).collect();
    }
    if let Some((w, p, s)) = dec_params(dt) {
        return dec_boundaries(p, s)
            .iter()
            .map(|x| {
                if w == 256 {
                    Val::Big(big_to_i256(x))
                } else {
                    Val::Int(num_traits::ToPrimitive::to_i128(x).unwrap())
                }
            })
            .collect();
    }
    let (dmin, dmax) = chrono_day_bounds();
    match dt {
        Null => vec![Val::Null; 3],
        Boolean => vec![Val::Bool(true), Val::Bool(false)],
        Float64 => float_boundaries().into_iter().map(|x| Val::F64(x.to_bits())).collect(),
        Float32 => {
            let mut v: Vec<Val> = float_boundaries().into_iter().map(|x| Val::F32((x as f32).to_bits())).collect();
            v.dedup();
            v
        }
        Float16 => {
            let mut v: Vec<Val> =
                float_boundaries().into_iter().map(|x| Val::F16(half::f16::from_f64(x).to_bits())).collect();
            v.dedup();
            v
        }
        Date32 => {
            let mut s = vec![
                0, 1, -1, 11_016, -719_162, -719_163, 2_932_896, 2_932_897, dmin, dmin - 1, dmin + 1, dmax, dmax + 1,
                dmax - 1, 106_751, 106_752, -106_752, -106_753, 106_751_991, 106_751_992, -106_751_992,
            ];
            s.extend([i32::MIN as i128, i32::MIN as i128 + 1, i32::MAX as i128, i32::MAX as i128 - 1]);
            s.sort();
            s.dedup();
            s.into_iter().map(Val::Int).collect()
        }
        Date64 => {
            let d = 86_400_000i128;
            let mut s = vec![
                0, 1, -1, 11_016, -719_162, -719_163, 2_932_896, 2_932_897, dmin, dmin - 1, dmax, dmax + 1, 106_751,
                106_752, -106_752, -106_753, 106_751_991, 106_752_000, -106_751_991, -106_752_000,
                i64::MAX as i128 / d, i64::MIN as i128 / d, i32::MAX as i128, i32::MAX as i128 + 1, i32::MIN as i128,
                i32::MIN as i128 - 1,
            ];
            s.sort();
            s.dedup();
            s.into_iter().map(|x| Val::Int(x * d)).collect()
        }
        Time32(u) | Time64(u) => {
            let m = unit_mult(u);
            let mut s = vec![0, 1, m - 1, m, 59 * m, 60 * m, 3600 * m, 43_200 * m + 1, 45_296 * m + m / 2, 86_399 * m, 86_400 * m - 1];
            s.retain(|x| *x >= 0 && *x < 86_400 * m);
            s.sort();
            s.dedup();
            s.into_iter().map(Val::Int).collect()
        }
        Timestamp(u, _) => ts_boundaries(u).into_iter().map(Val::Int).collect(),
        Duration(_) => int_boundaries(i64::MIN as i128, i64::MAX as i128).into_iter().map(Val::Int).collect(),
        Interval(IntervalUnit::YearMonth) => [0, 1, -1, 11, 12, 13, -11, -12, -13, 25, 1200, i32::MAX as i128, i32::MIN as i128, i32::MIN as i128 + 1]
            .into_iter()
            .map(Val::Int)
            .collect(),
        Interval(IntervalUnit::DayTime) => [
            (0, 0), (1, 0), (0, 1), (-1, -1), (1, -1), (-1, 1), (0, 999), (0, 1000), (0, -1), (0, -999), (0, -1000),
            (0, 86_400_000), (5, 3_723_004), (-5, -3_723_004), (0, 60_000), (0, 3_600_000), (0, 3_661_001),
            (i32::MAX, i32::MAX), (i32::MIN, i32::MIN), (0, i32::MIN), (i32::MIN, 0), (0, i32::MAX), (i32::MAX, 0),
            (0, 61_500), (0, -61_500), (0, 3_599_999),
        ]
        .into_iter()
        .map(|(d, m)| Val::IntervalDT(d, m))
        .collect(),
        Interval(IntervalUnit::MonthDayNano) => [
            (0, 0, 0i64), (1, 0, 0), (0, 1, 0), (0, 0, 1), (0, 0, -1), (0, 0, 999), (0, 0, 1000), (0, 0, 1_000_000),
            (0, 0, 1_000_000_000), (0, 0, -1_000_000_001), (0, 0, 60_000_000_000), (0, 0, 3_600_000_000_000),
            (13, -4, 3_723_000_000_005), (-13, 4, -3_723_000_000_005), (-1, -1, -1), (1, 1, -1), (12, 0, 0),
            (0, 0, 86_400_000_000_000), (i32::MAX, i32::MAX, i64::MAX), (i32::MIN, i32::MIN, i64::MIN),
            (0, 0, i64::MAX), (0, 0, i64::MIN), (0, 0, i64::MIN + 1), (i32::MIN, 0, 0), (0, i32::MIN, 0),
            // sub-hour values with both a minutes and a (fractional) seconds part
            (0, 0, 61_500_000_000), (0, 0, -61_500_000_000), (0, 0, 125_000_000_001), (0, 0, 3_599_999_999_999),
        ]
        .into_iter()
        .map(|(m, d, n)| Val::IntervalMDN(m, d, n))
        .collect(),
        Utf8 | LargeUtf8 | Utf8View => TEXTS.iter().map(|s| Val::Str(s.to_string())).collect(),
        Binary | LargeBinary | BinaryView => bytes_boundaries().into_iter().map(Val::Bytes).collect(),
        FixedSizeBinary(n) => {
            let n = *n as usize;
            let mut v = vec![vec![0u8; n], vec![0xffu8; n]];
            v.push((0..n).map(|i| b'a' + (i % 26) as u8).collect());
            v.push((0..n).map(|i| if i == n - 1 { 0x80 } else { b'x' }).collect());
            v.push((0..n).map(|i| (i * 37 + 1) as u8).collect());
            v.dedup();
            v.into_iter().map(Val::Bytes).collect()
        }
        Dictionary(_, v) => boundary_nonnull(v, depth),
        RunEndEncoded(_, v) => {
            // keep runs: every value twice
            let b = boundary_nonnull(v.data_type(), depth);
            let mut out = Vec::with_capacity(b.len() * 2);
            for x in b {
                out.push(x.clone());
                out.push(x);
            }
            out
        }
        List(_) | LargeList(_) | ListView(_) | LargeListView(_) => {
            let c = list_child(dt).unwrap();
            let mut pool = boundary_nonnull(c, depth + 1);
            if depth > 0 {
                pool.truncate(24);
            }
            let mut out = vec![Val::List(vec![])];
            let sizes = [1usize, 2, 3, 1, 2, 0, 3, 5];
            let mut i = 0;
            let mut k = 0;
            while i < pool.len() {
                let n = sizes[k % sizes.len()].min(pool.len() - i);
                out.push(Val::List(pool[i..i + n].to_vec()));
                i += n.max(1);
                k += 1;
            }
            if gens::can_be_null(c) && !pool.is_empty() {
                out.push(Val::List(vec![pool[0].clone(), Val::Null]));
                out.push(Val::List(vec![Val::Null]));
                out.push(Val::List(vec![Val::Null, pool[pool.len() - 1].clone(), Val::Null]));
            }
            out
        }
        FixedSizeList(c, n) => {
            let n = *n as usize;
            let mut pool = boundary_nonnull(c.data_type(), depth + 1);
            if depth > 0 {
                pool.truncate(24);
            }
            if n == 0 {
                return vec![Val::List(vec![]); 3];
            }
            let mut out: Vec<Val> = pool.chunks(n).filter(|c| c.len() == n).map(|c| Val::List(c.to_vec())).collect();
            if gens::can_be_null(c.data_type()) && !pool.is_empty() {
                let mut x = vec![Val::Null; n];
                out.push(Val::List(x.clone()));
                x[0] = pool[0].clone();
                out.push(Val::List(x));
            }
            out
        }
        Struct(fs) => {
            let cols: Vec<Vec<Val>> = fs
                .iter()
                .map(|x| {
                    let mut c = boundary_nonnull(x.data_type(), depth + 1);
                    if x.is_nullable() && gens::can_be_null(x.data_type()) {
                        c.push(Val::Null);
                    }
                    c
                })
                .collect();
            let n = cols.iter().map(|c| c.len()).max().unwrap_or(0).min(if depth > 0 { 12 } else { 260 });
            (0..n)
                .map(|i| Val::Struct(cols.iter().map(|c| if c.is_empty() { Val::Null } else { c[i % c.len()].clone() }).collect()))
                .collect()
        }
        Map(e, _) => {
            let Struct(kv) = e.data_type() else { return vec![] };
            let mut ks = boundary_nonnull(kv[0].data_type(), depth + 1);
            ks.dedup();
            let mut vs = boundary_nonnull(kv[1].data_type(), depth + 1);
            if gens::can_be_null(kv[1].data_type()) || vs.is_empty() {
                vs.push(Val::Null);
            }
            let n = ks.len().min(if depth > 0 { 12 } else { 200 });
            let mut out = vec![Val::List(vec![])];
            let sizes = [1usize, 2, 3, 0, 1];
            let mut i = 0;
            let mut k = 0;
            while i < n {
                let m = sizes[k % sizes.len()].min(n - i);
                out.push(Val::List(
                    (i..i + m).map(|j| Val::Struct(vec![ks[j].clone(), vs[j % vs.len()].clone()])).collect(),
                ));
                i += m.max(1);
                k += 1;
            }
            out
        }
        Union(fs, _) => {
            let mut out = vec![];
            for (tid, x) in fs.iter() {
                let mut c = boundary_nonnull(x.data_type(), depth + 1);
                c.truncate(40);
                if gens::can_be_null(x.data_type()) {
                    c.push(Val::Null);
                }
                for v in c {
                    out.push(Val::Union(tid, Box::new(v)));
                }
            }
            // interleave children
            let n = out.len();
            let mut mixed = Vec::with_capacity(n);
            let half = n / 2;
            for i in 0..half {
                mixed.push(out[i].clone());
                mixed.push(out[half + i].clone());
            }
            if n % 2 == 1 {
                mixed.push(out[n - 1].clone());
            }
            mixed
        }
        _ => vec![],
    }
}

// ------------------------------------------------------------ text generators

fn decorate(rng: &mut Rng, s: String) -> String {
    match rng.below(12) {
        0 => format!(" {s}"),
        1 => format!("{s} "),
        2 => format!("\t{s}\n"),
        3 => format!("+{s}"),
        4 => format!("0{s}"),
        5 => format!("{s}x"),
        _ => s,
    }
}

fn date_of_days(days: i64) -> Option<NaiveDate> {
    NaiveDate::from_num_days_from_ce_opt(i32::try_from(days + 719_163).ok()?)
}

/// A string that is plausibly meant for a column of type `target`.
pub fn gen_text_for(rng: &mut Rng, target: &DataType) -> String {
    use DataType::*;
    if rng.chance(1, 4) {
        return rng.pick(TEXTS).to_string();
    }
    if let Some((lo, hi)) = int_range(target) {
        let v = if rng.chance(1, 5) {
            gens::gen_int(rng, i128::MIN / 4, i128::MAX / 4)
        } else {
            gens::gen_int(rng, lo.saturating_sub(2), hi.saturating_add(2))
        };
        return decorate(rng, v.to_string());
    }
    if let Some((_, p, s)) = dec_params(target) {
        let digits = rng.usize_in(1, p as usize + 2);
        let mut d: String = (0..digits).map(|_| (b'0' + rng.below(10) as u8) as char).collect();
        if rng.chance(1, 3) {
            d = "9".repeat(digits);
        }
        let fracs = rng.usize_in(0, (s.max(0) as usize) + 2);
        let body = if fracs == 0 {
            d
        } else {
            let fr: String = (0..fracs).map(|_| *rng.pick(&['0', '4', '5', '9', '1']) ).collect();
            format!("{d}.{fr}")
        };
        let body = if rng.bool() { format!("-{body}") } else { body };
        return decorate(rng, body);
    }
    match target {
        Float16 | Float32 | Float64 => {
            let f = f64::from_bits(gens::gen_f64_bits(rng));
            let s = match rng.below(4) {
                0 => format!("{f:?}"),
                1 => format!("{f:e}"),
                2 => format!("{}", f as f32),
                _ => format!("{f}"),
            };
            decorate(rng, s)
        }
        Boolean => rng.pick(&["true", "false", "t", "F", "yes", "NO", "on", "off", "1", "0", "maybe"]).to_string(),
        Date32 | Date64 => {
            let days = gens::gen_int(rng, -719_162 - 400, 2_932_896 + 400) as i64;
            match date_of_days(days) {
                Some(d) => match rng.below(5) {
                    0 => d.format("%Y%m%d").to_string(),
                    1 => format!("{}T00:00:00", d.format("%Y-%m-%d")),
                    2 => decorate(rng, d.format("%Y-%m-%d").to_string()),
                    _ => d.format("%Y-%m-%d").to_string(),
                },
                None => "0000-00-00".into(),
            }
        }
        Timestamp(_, _) => {
            let secs = gens::gen_int(rng, -62_135_596_800, 253_402_300_799) as i64;
            let nanos = match rng.below(4) {
                0 => 0,
                1 => rng.below(1000) as u32 * 1_000_000,
                2 => rng.below(1_000_000) as u32 * 1000,
                _ => rng.below(1_000_000_000) as u32,
            };
            let Some(dt) = chrono::DateTime::from_timestamp(secs, nanos) else { return "x".into() };
            let off = *rng.pick(&[0i32, 19_800, -28_800, 50_400, -43_200, 3600]);
            let fo = chrono::FixedOffset::east_opt(off).unwrap();
            let l = dt.with_timezone(&fo);
            match rng.below(6) {
                0 => format!("{:?}", dt.naive_utc()),
                1 => dt.naive_utc().format("%Y-%m-%d %H:%M:%S%.f").to_string(),
                2 => dt.to_rfc3339_opts(chrono::SecondsFormat::AutoSi, true),
                3 => l.to_rfc3339_opts(chrono::SecondsFormat::Nanos, false),
                4 => l.format("%Y-%m-%d %H:%M:%S%.f %:z").to_string(),
                _ => l.to_rfc3339_opts(chrono::SecondsFormat::AutoSi, false),
            }
        }
        Time32(_) | Time64(_) => {
            let ns = rng.below(86_400) as u64 * 1_000_000_000
                + match rng.below(3) {
                    0 => 0,
                    1 => rng.below(1000) as u64 * 1_000_000,
                    _ => rng.below(1_000_000_000) as u64,
                };
            let t = chrono::NaiveTime::from_num_seconds_from_midnight_opt((ns / 1_000_000_000) as u32, (ns % 1_000_000_000) as u32).unwrap();
            match rng.below(4) {
                0 => t.format("%H:%M:%S").to_string(),
                1 => t.format("%I:%M:%S%.f %p").to_string(),
                2 => t.format("%H:%M").to_string(),
                _ => t.format("%H:%M:%S%.f").to_string(),
            }
        }
        Interval(_) => {
            let n = rng.usize_in(1, 3);
            let units = ["year", "years", "mons", "month", "day", "days", "hour", "hours", "mins", "minute", "secs", "second", "ms", "us", "ns", "week"];
            (0..n)
                .map(|_| {
                    let q = gens::gen_int(rng, -3000, 3000);
                    if rng.chance(1, 5) {
                        format!("{q}.5 {}", rng.pick(&units))
                    } else {
                        format!("{q} {}", rng.pick(&units))
                    }
                })
                .collect::<Vec<_>>()
                .join(" ")
        }
        _ => gens::gen_string(rng),
    }
}

/// replace string leaves by text aimed at `target`
pub fn retarget_strings(rng: &mut Rng, target: &DataType, vals: &mut [Val], small_pool: bool) {
    let pool: Vec<String> = (0..40).map(|_| gen_text_for(rng, target)).collect();
    fn walk(rng: &mut Rng, target: &DataType, v: &mut Val, pool: &[String], small: bool) {
        match v {
            Val::Str(s) => {
                if small || rng.bool() {
                    *s = rng.pick(pool).clone();
                } else if rng.chance(4, 5) {
                    *s = gen_text_for(rng, target);
                }
            }
            Val::List(xs) | Val::Struct(xs) => xs.iter_mut().for_each(|x| walk(rng, target, x, pool, small)),
            Val::Union(_, x) => walk(rng, target, x, pool, small),
            _ => {}
        }
    }
    for v in vals.iter_mut() {
        walk(rng, target, v, &pool, small_pool);
    }
}

// ------------------------------------------------------------ random related types

pub fn c13_cfg(depth: u32) -> TypeCfg {
    let mut c = TypeCfg::all();
    c.max_depth = depth;
    c.non_nullable = false;
    c.fsb0 = false;
    c
}

fn flat_family(rng: &mut Rng, dt: &DataType) -> DataType {
    use DataType::*;
    let cfg = c13_cfg(0);
    match dt {
        _ if int_range(dt).is_some() || matches!(dt, Float16 | Float32 | Float64 | Boolean) => rng
            .pick(&[Int8, Int16, Int32, Int64, UInt8, UInt16, UInt32, UInt64, Float16, Float32, Float64, Boolean, Utf8])
            .clone(),
        _ if dec_params(dt).is_some() => {
            if rng.chance(2, 3) {
                gens::gen_decimal_type(rng, &cfg)
            } else {
                rng.pick(&[Int32, Int64, UInt8, Float64, Float32, Utf8, Utf8View]).clone()
            }
        }
        _ if is_string(dt) => {
            if rng.bool() {
                gens::gen_primitive_type(rng, &cfg)
            } else {
                rng.pick(&[Utf8, LargeUtf8, Utf8View, Binary, BinaryView, LargeBinary]).clone()
            }
        }
        Binary | LargeBinary | BinaryView | FixedSizeBinary(_) => rng
            .pick(&[Utf8, LargeUtf8, Utf8View, Binary, BinaryView, LargeBinary, FixedSizeBinary(4), FixedSizeBinary(3)])
            .clone(),
        Date32 | Date64 | Timestamp(_, _) | Time32(_) | Time64(_) => match rng.below(8) {
            0 => Date32,
            1 => Date64,
            2 => Time32(*rng.pick(&[TimeUnit::Second, TimeUnit::Millisecond])),
            3 => Time64(*rng.pick(&[TimeUnit::Microsecond, TimeUnit::Nanosecond])),
            4 => rng.pick(&[Int32, Int64, Utf8, Utf8View, Float64]).clone(),
            _ => Timestamp(
                *rng.pick(&gens::TIME_UNITS),
                if rng.bool() { None } else { tz(*rng.pick(&["+00:00", "+05:30", "-08:00", "+14:00", "-12:00", "+09"])) },
            ),
        },
        Duration(_) | Interval(_) => match rng.below(4) {
            0 => Duration(*rng.pick(&gens::TIME_UNITS)),
            1 => Interval(*rng.pick(&[IntervalUnit::YearMonth, IntervalUnit::DayTime, IntervalUnit::MonthDayNano])),
            2 => rng.pick(&[Int64, Int32, Utf8, Float64]).clone(),
            _ => Interval(IntervalUnit::MonthDayNano),
        },
        _ => gens::gen_primitive_type(rng, &cfg),
    }
}

/// A type that is likely castable from `a`.
pub fn related_type(rng: &mut Rng, a: &DataType, depth: u32) -> DataType {
    use DataType::*;
    let keys = [Int8, Int16, Int32, Int64, UInt8, UInt16, UInt32, UInt64];
    let relist = |rng: &mut Rng, c: DataType| -> DataType {
        match rng.below(6) {
            0 => List(item(c)),
            1 => LargeList(item(c)),
            2 => ListView(item(c)),
            3 => LargeListView(item(c)),
            4 => FixedSizeList(item(c), *rng.pick(&[1, 2, 3])),
            _ => List(item(c)),
        }
    };
    if depth > 0 && rng.chance(1, 8) {
        // wrap
        let inner = related_type(rng, a, depth - 1);
        if inner.is_nested() && !is_list_family(&inner) {
            return inner;
        }
        return match rng.below(4) {
            0 if !matches!(inner, Dictionary(_, _) | RunEndEncoded(_, _) | Null) && !inner.is_nested() => {
                dict(rng.pick(&keys).clone(), inner)
            }
            1 if !matches!(inner, Dictionary(_, _) | RunEndEncoded(_, _) | Null) && !inner.is_nested() => {
                ree(rng.pick(&[Int16, Int32, Int64]).clone(), inner)
            }
            _ => relist(rng, inner),
        };
    }
    match a {
        Dictionary(_, v) => match rng.below(4) {
            0 => related_type(rng, v, depth),
            _ => {
                let nv = related_type(rng, v, 0);
                if nv.is_nested() || matches!(nv, Dictionary(_, _) | RunEndEncoded(_, _) | Null) {
                    (**v).clone()
                } else {
                    dict(rng.pick(&keys).clone(), nv)
                }
            }
        },
        RunEndEncoded(_, v) => match rng.below(3) {
            0 => related_type(rng, v.data_type(), depth),
            _ => {
                let nv = related_type(rng, v.data_type(), 0);
                if nv.is_nested() || matches!(nv, Dictionary(_, _) | RunEndEncoded(_, _) | Null) {
                    v.data_type().clone()
                } else {
                    ree(rng.pick(&[Int16, Int32, Int64]).clone(), nv)
                }
            }
        },
        List(c) | LargeList(c) | ListView(c) | LargeListView(c) => {
            if rng.chance(1, 8) {
                return Utf8;
            }
            let nc = related_type(rng, c.data_type(), depth.saturating_sub(1));
            relist(rng, nc)
        }
        FixedSizeList(c, n) => {
            let nc = related_type(rng, c.data_type(), depth.saturating_sub(1));
            match rng.below(4) {
                0 => FixedSizeList(item(nc), *n),
                1 if *n == 1 => nc,
                _ => relist(rng, nc),
            }
        }
        Struct(fs) => {
            let mut nf: Vec<Field> = fs
                .iter()
                .map(|x| Field::new(x.name(), related_type(rng, x.data_type(), depth.saturating_sub(1)), true))
                .collect();
            match rng.below(4) {
                0 => nf.reverse(),
                1 => {
                    nf = nf.into_iter().enumerate().map(|(i, x)| x.with_name(format!("g{i}"))).collect();
                }
                _ => {}
            }
            Struct(Fields::from(nf))
        }
        Map(e, o) => {
            let Struct(kv) = e.data_type() else { return a.clone() };
            let mut nk = related_type(rng, kv[0].data_type(), 0);
            if nk.is_nested() || matches!(nk, Dictionary(_, _) | RunEndEncoded(_, _) | Null) {
                nk = kv[0].data_type().clone();
            }
            let nv = related_type(rng, kv[1].data_type(), depth.saturating_sub(1));
            DataType::Map(Arc::new(Field::new("entries", strukt_kv(nk, nv), false)), *o)
        }
        Union(fs, _) => {
            let (_, x) = fs.iter().nth(rng.below(fs.len())).unwrap();
            if rng.bool() { x.data_type().clone() } else { related_type(rng, x.data_type(), 0) }
        }
        Null => gens::gen_type(rng, &c13_cfg(1)),
        flat => {
            if rng.chance(1, 6) {
                gens::gen_primitive_type(rng, &c13_cfg(0))
            } else {
                flat_family(rng, flat)
            }
        }
    }
}
