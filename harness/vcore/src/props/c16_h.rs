//! C16 handles: every kind of object that can refer to a memory region, the
//! bytes visible through it, and the creators (standard allocations, harness
//! owned custom regions, bytes::Bytes, Vec).

use super::c16_sup::*;
use crate::build;
use crate::extract::extract;
use crate::gens::{self, TypeCfg};
use crate::rng::Rng;
use crate::val::Val;
use arrow_array::builder::{GenericStringBuilder, PrimitiveBuilder};
use arrow_array::ffi::{FFI_ArrowArray, FFI_ArrowSchema};
use arrow_array::ffi_stream::{ArrowArrayStreamReader, FFI_ArrowArrayStream};
use arrow_array::types::{Int32Type, Int64Type, UInt8Type};
use arrow_array::*;
use arrow_buffer::alloc::Allocation;
use arrow_buffer::{BooleanBuffer, Buffer, MutableBuffer, NullBuffer, OffsetBuffer, ScalarBuffer};
use arrow_data::{ArrayData, ArrayDataBuilder, layout};
use arrow_schema::DataType;
use std::ptr::NonNull;
use std::sync::{Arc, Mutex};

pub enum P {
    I32(Int32Array),
    I64(Int64Array),
    U8(UInt8Array),
}
pub enum PB {
    I32(PrimitiveBuilder<Int32Type>),
    I64(PrimitiveBuilder<Int64Type>),
    U8(PrimitiveBuilder<UInt8Type>),
}
pub enum V {
    U8(Vec<u8>),
    I32(Vec<i32>),
    I64(Vec<i64>),
}

#[macro_export]
macro_rules! c16_with_p {
    ($p:expr, $a:ident => $body:expr) => {
        match $p {
            P::I32($a) => $body,
            P::I64($a) => $body,
            P::U8($a) => $body,
        }
    };
}
#[macro_export]
macro_rules! c16_with_pb {
    ($p:expr, $a:ident => $body:expr) => {
        match $p {
            PB::I32($a) => $body,
            PB::I64($a) => $body,
            PB::U8($a) => $body,
        }
    };
}

pub struct FfiPair {
    pub arr: Box<FFI_ArrowArray>,
    pub sch: FFI_ArrowSchema,
    pub top: Option<u32>,
    pub shape: ExportShape,
    pub dt: DataType,
    pub vals: Vec<Val>,
}

pub struct StreamMeta {
    /// expected logical content: batches x columns
    pub expect: Vec<Vec<Vec<Val>>>,
    pub dts: Vec<DataType>,
    /// (address, length) of the non-empty buffers of each exported batch
    pub held: Vec<Vec<(usize, usize)>>,
    pub handed: Arc<Mutex<Vec<u32>>>,
    pub next: usize,
}
pub struct StreamH {
    pub s: FFI_ArrowArrayStream,
    pub m: StreamMeta,
}
pub struct ReaderH {
    pub r: ArrowArrayStreamReader,
    pub m: StreamMeta,
}

pub enum H {
    Buf(Buffer),
    Bits(BooleanBuffer),
    Prim(P),
    Bool(BooleanArray),
    Str(StringArray),
    Data(ArrayData),
    Mut(MutableBuffer),
    Vec(V),
    Bld(PB),
    BStr(GenericStringBuilder<i32>),
    Ffi(FfiPair),
    Stream(StreamH),
    Reader(ReaderH),
    Ext(bytes::Bytes),
}

impl H {
    pub fn kind(&self) -> &'static str {
        match self {
            H::Buf(_) => "Buffer",
            H::Bits(_) => "BooleanBuffer",
            H::Prim(_) => "PrimitiveArray",
            H::Bool(_) => "BooleanArray",
            H::Str(_) => "StringArray",
            H::Data(_) => "ArrayData",
            H::Mut(_) => "MutableBuffer",
            H::Vec(_) => "Vec",
            H::Bld(_) => "PrimitiveBuilder",
            H::BStr(_) => "StringBuilder",
            H::Ffi(_) => "FFI_ArrowArray",
            H::Stream(_) => "FFI_ArrowArrayStream",
            H::Reader(_) => "ArrowArrayStreamReader",
            H::Ext(_) => "bytes::Bytes",
        }
    }
    /// handles whose memory cannot be seen through arrow Buffers
    pub fn opaque(&self) -> bool {
        matches!(self, H::Ffi(_) | H::Stream(_) | H::Reader(_) | H::Ext(_))
    }
    pub fn is_builder(&self) -> bool {
        matches!(self, H::Bld(_) | H::BStr(_))
    }
}

#[derive(Clone, Default)]
pub struct Meta {
    /// top-level exported array structs this handle was imported from
    pub imports: Vec<u32>,
    /// regions kept alive by this handle (address derived, plus inherited for opaque handles)
    pub roots: Vec<u32>,
    /// capacities of regions kept alive behind an opaque handle / an import
    pub xcaps: Vec<usize>,
    /// where the memory originally came from (evidence class only)
    pub src: &'static str,
    /// an operation handed back an invalid array: already reported, the handle (and whatever
    /// is derived from it) is only dropped from then on
    pub tainted: bool,
}

pub struct Slot {
    pub id: u32,
    pub h: H,
    pub snap: Vec<Vec<u8>>,
    pub meta: Meta,
    pub origin: &'static str,
    /// ids of the reservations created by `claim` on this very handle (kept only across
    /// operations that change the handle in place)
    pub claimed: Vec<usize>,
}

pub fn data_bufs<'a>(d: &'a ArrayData, f: &mut dyn FnMut(&'a Buffer)) {
    for b in d.buffers() {
        f(b);
    }
    if let Some(n) = d.nulls() {
        f(n.buffer());
    }
    for c in d.child_data() {
        data_bufs(c, f);
    }
}

pub fn for_bufs<'a>(h: &'a H, f: &mut dyn FnMut(&'a Buffer)) {
    match h {
        H::Buf(b) => f(b),
        H::Bits(b) => f(b.inner()),
        H::Prim(p) => c16_with_p!(p, a => {
            f(a.values().inner());
            if let Some(n) = a.nulls() {
                f(n.buffer());
            }
        }),
        H::Bool(a) => {
            f(a.values().inner());
            if let Some(n) = a.nulls() {
                f(n.buffer());
            }
        }
        H::Str(a) => {
            f(a.offsets().inner().inner());
            f(a.values());
            if let Some(n) = a.nulls() {
                f(n.buffer());
            }
        }
        H::Data(d) => data_bufs(d, f),
        _ => {}
    }
}

fn bytes_of<T>(s: &[T]) -> (*const u8, usize) {
    (s.as_ptr() as *const u8, std::mem::size_of_val(s))
}

/// (pointer, byte length) of every byte range visible through the handle
pub fn views(h: &H) -> Vec<(*const u8, usize)> {
    let mut out = Vec::new();
    match h {
        H::Mut(m) => out.push((m.as_ptr(), m.len())),
        H::Vec(v) => out.push(match v {
            V::U8(x) => bytes_of(x.as_slice()),
            V::I32(x) => bytes_of(x.as_slice()),
            V::I64(x) => bytes_of(x.as_slice()),
        }),
        H::Bld(b) => c16_with_pb!(b, x => {
            out.push(bytes_of(x.values_slice()));
            if let Some(v) = x.validity_slice() {
                out.push(bytes_of(v));
            }
        }),
        H::BStr(b) => {
            out.push(bytes_of(b.values_slice()));
            out.push(bytes_of(b.offsets_slice()));
            if let Some(v) = b.validity_slice() {
                out.push(bytes_of(v));
            }
        }
        H::Ffi(f) => unsafe { c_views(&*f.arr as *const FFI_ArrowArray, &f.shape, &mut out) },
        H::Stream(_) | H::Reader(_) => {}
        H::Ext(b) => out.push((b.as_ptr(), b.len())),
        _ => for_bufs(h, &mut |b: &Buffer| out.push((b.as_ptr(), b.len()))),
    }
    out
}

/// (address, length) of every non-empty byte range the handle keeps alive
/// as far as it can be observed: what is visible through it, and for a
/// stream / stream reader the buffers of the batches not yet handed out
pub fn addrs(h: &H) -> Vec<(usize, usize)> {
    match h {
        H::Stream(StreamH { m, .. }) | H::Reader(ReaderH { m, .. }) => {
            m.held.iter().skip(m.next).flat_map(|b| b.iter().copied()).collect()
        }
        _ => views(h).into_iter().filter(|(_, l)| *l > 0).map(|(p, l)| (p as usize, l)).collect(),
    }
}

pub fn snapshot(h: &H) -> Vec<Vec<u8>> {
    views(h)
        .into_iter()
        .map(|(p, l)| if l == 0 { Vec::new() } else { unsafe { std::slice::from_raw_parts(p, l) }.to_vec() })
        .collect()
}

/// capacities (and for mutable things also lengths) of the regions held
pub fn caps(h: &H) -> Vec<usize> {
    let mut out = Vec::new();
    match h {
        H::Mut(m) => {
            out.push(m.capacity());
            out.push(m.len());
        }
        H::Vec(v) => out.push(match v {
            V::U8(x) => x.capacity(),
            V::I32(x) => x.capacity() * 4,
            V::I64(x) => x.capacity() * 8,
        }),
        H::Ext(b) => out.push(b.len()),
        _ => for_bufs(h, &mut |b: &Buffer| out.push(b.capacity())),
    }
    out
}

/// logical content of typed handles (None for raw byte handles)
pub fn logical(h: &H) -> Option<Vec<Val>> {
    match h {
        H::Prim(p) => Some(c16_with_p!(p, a => extract(a))),
        H::Bool(a) => Some(extract(a)),
        H::Str(a) => Some(extract(a)),
        H::Data(d) => Some(extract(make_array(d.clone()).as_ref())),
        H::Bits(b) => Some(b.iter().map(Val::Bool).collect()),
        H::Bld(b) => Some(c16_with_pb!(b, x => extract(&x.finish_cloned()))),
        H::BStr(b) => Some(extract(&b.finish_cloned())),
        _ => None,
    }
}

pub fn to_data(h: &H) -> Option<ArrayData> {
    match h {
        H::Prim(p) => Some(c16_with_p!(p, a => a.to_data())),
        H::Bool(a) => Some(a.to_data()),
        H::Str(a) => Some(a.to_data()),
        H::Data(d) => Some(d.clone()),
        _ => None,
    }
}

/// type family for signatures / classes (no parameters)
pub fn fam(dt: &DataType) -> &'static str {
    use DataType::*;
    match dt {
        Null => "null",
        Boolean => "boolean",
        Utf8 | LargeUtf8 | Binary | LargeBinary => "bytes",
        Utf8View | BinaryView => "view",
        FixedSizeBinary(_) => "fsb",
        List(_) | LargeList(_) => "list",
        ListView(_) | LargeListView(_) => "listview",
        FixedSizeList(_, _) => "fsl",
        Struct(_) => "struct",
        Map(_, _) => "map",
        Union(_, _) => "union",
        Dictionary(_, _) => "dictionary",
        RunEndEncoded(_, _) => "ree",
        _ => "primitive",
    }
}

pub fn shape_of(d: &ArrayData) -> ExportShape {
    let lay = layout(d.data_type());
    let mut lens = Vec::new();
    if lay.can_contain_null_mask {
        lens.push(match d.nulls() {
            Some(_) => (d.len() + d.offset()).div_ceil(8),
            None => 0,
        });
    }
    for b in d.buffers() {
        lens.push(b.len());
    }
    if lay.variadic {
        lens.push(d.buffers().len().saturating_sub(1) * 8);
    }
    match d.data_type() {
        DataType::Dictionary(_, _) => ExportShape {
            lens,
            children: Vec::new(),
            dictionary: d.child_data().first().map(|c| Box::new(shape_of(c))),
        },
        _ => ExportShape {
            lens,
            children: d.child_data().iter().map(shape_of).collect(),
            dictionary: None,
        },
    }
}

// ---------------------------------------------------------------------------
// creators
// ---------------------------------------------------------------------------

/// A Buffer over a fresh harness-owned region; `align_mod` is the address of
/// the payload modulo 64.
pub fn custom_buf(sh: &Arc<Shared>, rng: &mut Rng, payload: &[u8], align_mod: usize) -> Buffer {
    let front = 64 * rng.below(2) + (align_mod % 64);
    let back = rng.below(70);
    let mut content = rng.bytes(front);
    content.extend_from_slice(payload);
    content.extend_from_slice(&rng.bytes(back));
    let (rid, p) = sh.new_region(&content, "custom");
    let real = Owner { sh: sh.clone(), rid };
    let owner: Arc<dyn Allocation> = if sanity() == 2 {
        // self-test: the owner will be released (at the next operation) although a buffer
        // over the region stays alive
        lock(&sh.stash).push(real);
        Arc::new(())
    } else {
        Arc::new(real)
    };
    unsafe { Buffer::from_custom_allocation(NonNull::new(p.add(front)).unwrap(), payload.len(), owner) }
}

/// Two Buffers (two separate `Bytes`) over ONE region with ONE owner.
pub fn custom_pair(sh: &Arc<Shared>, rng: &mut Rng, a: &[u8], b: &[u8]) -> (Buffer, Buffer) {
    let gap = 64 * (1 + rng.below(2));
    let a_room = a.len().div_ceil(64) * 64;
    let mut content = Vec::new();
    content.extend_from_slice(a);
    content.extend_from_slice(&rng.bytes(a_room - a.len() + gap));
    let off_b = content.len();
    content.extend_from_slice(b);
    let tail = rng.below(40);
    content.extend_from_slice(&rng.bytes(tail));
    let (rid, p) = sh.new_region(&content, "custom");
    let owner: Arc<dyn Allocation> = Arc::new(Owner { sh: sh.clone(), rid });
    unsafe {
        (
            Buffer::from_custom_allocation(NonNull::new(p).unwrap(), a.len(), owner.clone()),
            Buffer::from_custom_allocation(NonNull::new(p.add(off_b)).unwrap(), b.len(), owner),
        )
    }
}

pub fn bytes_owner_buf(sh: &Arc<Shared>, payload: &[u8]) -> bytes::Bytes {
    let (rid, p) = sh.new_region(payload, "bytes");
    bytes::Bytes::from_owner(BytesOwner {
        owner: Owner { sh: sh.clone(), rid },
        ptr: SendPtr(p),
        len: payload.len(),
    })
}

/// Copy every buffer of `d` into harness-owned regions (same alignment
/// modulo 64, same offsets), so that owner accounting covers arbitrary types.
pub fn rehome(d: &ArrayData, sh: &Arc<Shared>, rng: &mut Rng) -> ArrayData {
    let buffers: Vec<Buffer> = d
        .buffers()
        .iter()
        .map(|b| custom_buf(sh, rng, b.as_slice(), b.as_ptr() as usize % 64))
        .collect();
    let nulls = d.nulls().map(|n| {
        let raw = n.buffer();
        let nb = custom_buf(sh, rng, raw.as_slice(), raw.as_ptr() as usize % 64);
        NullBuffer::new(BooleanBuffer::new(nb, n.offset(), n.len()))
    });
    let children: Vec<ArrayData> = d.child_data().iter().map(|c| rehome(c, sh, rng)).collect();
    let b = ArrayDataBuilder::new(d.data_type().clone())
        .len(d.len())
        .offset(d.offset())
        .buffers(buffers)
        .nulls(nulls)
        .child_data(children);
    // SAFETY: byte-for-byte copy of a valid array
    unsafe { b.build_unchecked() }
}

pub const N_CREATE: u8 = 20;

pub fn create_name(kind: u8) -> &'static str {
    match kind % N_CREATE {
        0 => "std",
        1 | 2 | 3 => "vec",
        4 => "slice_ref",
        5 | 6 => "custom",
        7 => "bytes-owner",
        8 => "bytes-vec",
        9 => "mutable",
        10 => "prim-opt",
        11 => "prim-custom",
        12 => "bool-opt",
        13 => "bool-custom",
        14 => "str-iter",
        15 => "str-custom",
        16 => "data",
        17 => "data-custom",
        18 => "prim-vec",
        _ => "bits",
    }
}

fn rbytes(rng: &mut Rng, max: usize) -> Vec<u8> {
    let n = rng.len_biased(max);
    rng.bytes(n)
}

fn ascii(rng: &mut Rng, n: usize) -> Vec<u8> {
    (0..n).map(|_| b'a' + (rng.below(26) as u8)).collect()
}

fn prim_from_buf(ty: usize, b: Buffer, n: usize, nulls: Option<NullBuffer>) -> P {
    match ty % 3 {
        0 => P::I32(Int32Array::new(ScalarBuffer::new(b, 0, n), nulls)),
        1 => P::I64(Int64Array::new(ScalarBuffer::new(b, 0, n), nulls)),
        _ => P::U8(UInt8Array::new(ScalarBuffer::new(b, 0, n), nulls)),
    }
}

pub fn prim_size(ty: usize) -> usize {
    match ty % 3 {
        0 => 4,
        1 => 8,
        _ => 1,
    }
}

/// Create one (sometimes two) fresh handles of the given kind; everything is
/// derived from `seed`.
pub fn create(sh: &Arc<Shared>, kind: u8, seed: u64, small: bool) -> Vec<H> {
    let mut rng = Rng::new(seed ^ 0xC16C_16C1_6C16);
    let maxb = if small { 40 } else { 200 };
    let maxn = if small { 12 } else { 40 };
    let rng = &mut rng;
    match kind % N_CREATE {
        0 => {
            let n = rng.len_biased(maxb);
            let mut m = MutableBuffer::new(if rng.bool() { n } else { n + rng.below(130) });
            m.extend_from_slice(&rng.bytes(n));
            vec![H::Buf(m.into())]
        }
        1 => vec![H::Buf(Buffer::from_vec(rbytes(rng, maxb)))],
        2 => {
            let n = rng.len_biased(maxn);
            let mut v: Vec<i32> = Vec::with_capacity(n + rng.below(5));
            v.extend((0..n).map(|_| rng.u32() as i32));
            vec![H::Buf(Buffer::from_vec(v))]
        }
        3 => {
            let n = rng.len_biased(maxn);
            let v: Vec<i64> = (0..n).map(|_| rng.u64() as i64).collect();
            vec![H::Buf(Buffer::from_vec(v))]
        }
        4 => vec![H::Buf(Buffer::from_slice_ref(rbytes(rng, maxb)))],
        5 => {
            let p = rbytes(rng, maxb);
            let am = *rng.pick(&[0usize, 0, 8, 4, 1, 3]);
            vec![H::Buf(custom_buf(sh, rng, &p, am))]
        }
        6 => {
            let a = rbytes(rng, maxb);
            let b = rbytes(rng, maxb);
            let (x, y) = custom_pair(sh, rng, &a, &b);
            vec![H::Buf(x), H::Buf(y)]
        }
        7 => {
            let p = rbytes(rng, maxb);
            let b = bytes_owner_buf(sh, &p);
            if rng.bool() { vec![H::Buf(Buffer::from(b))] } else { vec![H::Ext(b)] }
        }
        8 => vec![H::Buf(Buffer::from(bytes::Bytes::from(rbytes(rng, maxb))))],
        9 => {
            let n = rng.len_biased(maxb);
            let mut m = MutableBuffer::new(rng.below(100));
            m.extend_from_slice(&rng.bytes(n));
            vec![H::Mut(m)]
        }
        10 => {
            let n = rng.len_biased(maxn);
            let ty = rng.below(3);
            let p = match ty {
                0 => P::I32((0..n).map(|_| if rng.chance(1, 4) { None } else { Some(rng.u32() as i32) }).collect()),
                1 => P::I64((0..n).map(|_| if rng.chance(1, 4) { None } else { Some(rng.u64() as i64) }).collect()),
                _ => P::U8((0..n).map(|_| if rng.chance(1, 4) { None } else { Some(rng.u8()) }).collect()),
            };
            vec![H::Prim(p)]
        }
        11 => {
            let n = rng.len_biased(maxn);
            let ty = rng.below(3);
            let vals = rng.bytes(n * prim_size(ty));
            let nulls = if rng.bool() {
                let off = rng.below(9);
                let pad = rng.below(3);
                let bits = rng.bytes((off + n).div_ceil(8) + pad);
                Some((bits, off))
            } else {
                None
            };
            let (vb, nb) = match (&nulls, rng.bool()) {
                (Some((bits, _)), true) => {
                    let (a, b) = custom_pair(sh, rng, &vals, bits);
                    (a, Some(b))
                }
                (Some((bits, _)), false) => (custom_buf(sh, rng, &vals, 0), Some(custom_buf(sh, rng, bits, 0))),
                (None, _) => (custom_buf(sh, rng, &vals, 0), None),
            };
            let nulls = nb.map(|b| NullBuffer::new(BooleanBuffer::new(b, nulls.as_ref().unwrap().1, n)));
            vec![H::Prim(prim_from_buf(ty, vb, n, nulls))]
        }
        12 => {
            let n = rng.len_biased(maxn * 2);
            let a: BooleanArray = (0..n).map(|_| if rng.chance(1, 4) { None } else { Some(rng.bool()) }).collect();
            vec![H::Bool(a)]
        }
        13 => {
            let n = rng.len_biased(maxn * 2);
            let off = rng.below(9);
            let pad = rng.below(3);
                let bits = rng.bytes((off + n).div_ceil(8) + pad);
            let vb = custom_buf(sh, rng, &bits, 0);
            let nulls = if rng.bool() {
                let noff = rng.below(9);
                let nbits = rng.bytes((noff + n).div_ceil(8));
                Some(NullBuffer::new(BooleanBuffer::new(custom_buf(sh, rng, &nbits, 0), noff, n)))
            } else {
                None
            };
            vec![H::Bool(BooleanArray::new(BooleanBuffer::new(vb, off, n), nulls))]
        }
        14 => {
            let n = rng.len_biased(maxn);
            let a: StringArray = (0..n)
                .map(|_| {
                    if rng.chance(1, 4) {
                        None
                    } else {
                        let l = rng.below(9);
                        Some(String::from_utf8(ascii(rng, l)).unwrap())
                    }
                })
                .collect();
            vec![H::Str(a)]
        }
        15 => {
            let n = rng.len_biased(maxn);
            let mut offs: Vec<i32> = vec![0];
            for _ in 0..n {
                let l = rng.below(7) as i32;
                offs.push(offs.last().unwrap() + l);
            }
            let extra = rng.below(4);
            let data = ascii(rng, *offs.last().unwrap() as usize + extra);
            let ob: Vec<u8> = offs.iter().flat_map(|o| o.to_le_bytes()).collect();
            let (o, v) = if rng.bool() {
                custom_pair(sh, rng, &ob, &data)
            } else {
                {
                    let am = *rng.pick(&[0usize, 1, 7]);
                    (custom_buf(sh, rng, &ob, 0), custom_buf(sh, rng, &data, am))
                }
            };
            let nulls = if rng.bool() {
                let noff = rng.below(9);
                let nbits = rng.bytes((noff + n).div_ceil(8));
                Some(NullBuffer::new(BooleanBuffer::new(custom_buf(sh, rng, &nbits, 0), noff, n)))
            } else {
                None
            };
            let a = StringArray::new(OffsetBuffer::new(ScalarBuffer::new(o, 0, n + 1)), v, nulls);
            vec![H::Str(a)]
        }
        16 | 17 => {
            let mut cfg = TypeCfg::all().depth(2);
            cfg.non_nullable = false;
            let dt = gens::gen_type(rng, &cfg);
            let n = rng.len_biased(if small { 6 } else { 20 });
            let vals = gens::gen_column(rng, &dt, n, true, &cfg);
            let a = if rng.chance(1, 4) { build::build(&dt, &vals) } else { build::realise(rng, &dt, &vals) };
            let d = a.to_data();
            if kind % N_CREATE == 17 { vec![H::Data(rehome(&d, sh, rng))] } else { vec![H::Data(d)] }
        }
        18 => {
            let n = rng.len_biased(maxn);
            let p = match rng.below(3) {
                0 => P::I32(Int32Array::from((0..n).map(|_| rng.u32() as i32).collect::<Vec<i32>>())),
                1 => P::I64(Int64Array::from((0..n).map(|_| rng.u64() as i64).collect::<Vec<i64>>())),
                _ => P::U8(UInt8Array::from(rng.bytes(n))),
            };
            vec![H::Prim(p)]
        }
        _ => {
            let n = rng.len_biased(maxn * 3);
            let off = rng.below(9);
            let pad = rng.below(3);
                let bits = rng.bytes((off + n).div_ceil(8) + pad);
            let b = match rng.below(3) {
                0 => custom_buf(sh, rng, &bits, 0),
                1 => Buffer::from_vec(bits),
                _ => Buffer::from_slice_ref(&bits),
            };
            vec![H::Bits(BooleanBuffer::new(b, off, n))]
        }
    }
}
