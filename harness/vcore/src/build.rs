//! Physical realisations of a logical column. `build` is the canonical layout;
//! `realise` draws one of many layouts (sliced at unaligned offsets, padded
//! buffers, garbage under nulls, permuted dictionaries, split runs, reordered
//! list-views, ...). All go through the *safe validated* constructors.

use crate::gens::{self, TypeCfg};
use crate::rng::Rng;
use crate::val::Val;
use arrow_array::types::*;
use arrow_array::*;
use arrow_buffer::{
    BooleanBuffer, Buffer, MutableBuffer, NullBuffer, OffsetBuffer, ScalarBuffer, i256,
};
use arrow_buffer::{ArrowNativeType, IntervalDayTime, IntervalMonthDayNano};
use arrow_schema::{DataType, Field, FieldRef, IntervalUnit, TimeUnit, UnionMode};
use std::collections::HashMap;
use std::sync::Arc;

/// Realisation context: `chaos == false` gives the canonical layout.
pub struct R<'a> {
    pub rng: &'a mut Rng,
    pub chaos: bool,
    /// depth counter (used to limit recursive padding)
    pub depth: u32,
}

impl<'a> R<'a> {
    fn coin(&mut self, num: u32, den: u32) -> bool {
        self.chaos && self.rng.chance(num, den)
    }
}

pub fn garbage_cfg() -> TypeCfg {
    let mut c = TypeCfg::all();
    c.wild_temporal = true;
    c
}

/// Canonical realisation.
pub fn build(dt: &DataType, vals: &[Val]) -> ArrayRef {
    let mut rng = Rng::new(0);
    let mut r = R {
        rng: &mut rng,
        chaos: false,
        depth: 0,
    };
    mk(&mut r, dt, vals, true)
}

/// A random realisation of the same logical column (same `DataType`).
pub fn realise(rng: &mut Rng, dt: &DataType, vals: &[Val]) -> ArrayRef {
    let mut r = R {
        rng,
        chaos: true,
        depth: 0,
    };
    mk(&mut r, dt, vals, true)
}

/// Either canonical or random, recording the layout class chosen.
pub fn realise_k(rng: &mut Rng, dt: &DataType, vals: &[Val], k: usize) -> ArrayRef {
    if k == 0 { build(dt, vals) } else { realise(rng, dt, vals) }
}

fn garbage_val(r: &mut R, dt: &DataType, nullable: bool) -> Val {
    if nullable && gens::can_be_null(dt) && r.rng.chance(1, 4) {
        Val::Null
    } else {
        gens::gen_value(r.rng, dt, &garbage_cfg())
    }
}

/// Build an array for `vals`; with chaos, pad with garbage rows and slice.
pub fn mk(r: &mut R, dt: &DataType, vals: &[Val], nullable: bool) -> ArrayRef {
    if r.chaos && r.depth < 3 && r.rng.chance(1, 2) && !matches!(dt, DataType::Null) {
        let pre = *r.rng.pick(&[0usize, 1, 1, 2, 3, 5, 7, 8, 9, 63, 64, 65]);
        let post = *r.rng.pick(&[0usize, 0, 1, 2, 7, 9]);
        // small-key dictionaries: keep the padded column within key capacity
        let (pre, post) = if small_dict(dt) && vals.len() + pre + post > 100 {
            (0, 0)
        } else {
            (pre, post)
        };
        if pre + post > 0 {
            let mut all: Vec<Val> = Vec::with_capacity(vals.len() + pre + post);
            for _ in 0..pre {
                all.push(garbage_val(r, dt, nullable));
            }
            all.extend_from_slice(vals);
            for _ in 0..post {
                all.push(garbage_val(r, dt, nullable));
            }
            r.depth += 1;
            let a = mk_inner(r, dt, &all, nullable);
            r.depth -= 1;
            return a.slice(pre, vals.len());
        }
    }
    r.depth += 1;
    let a = mk_inner(r, dt, vals, nullable);
    r.depth -= 1;
    a
}

fn small_dict(dt: &DataType) -> bool {
    matches!(dt, DataType::Dictionary(k, _) if matches!(**k, DataType::Int8 | DataType::UInt8))
}

fn nulls_of(r: &mut R, vals: &[Val]) -> Option<NullBuffer> {
    let any = vals.iter().any(|v| v.is_null());
    if !any && !r.coin(1, 3) {
        return None;
    }
    Some(mk_nulls(r, vals.iter().map(|v| !v.is_null())))
}

/// NullBuffer from an iterator of validity bits; with chaos embedded at a
/// bit offset inside a larger buffer of random bits.
pub fn mk_nulls(r: &mut R, valid: impl Iterator<Item = bool>) -> NullBuffer {
    NullBuffer::new(mk_bits(r, valid))
}

pub fn mk_bits(r: &mut R, bits: impl Iterator<Item = bool>) -> BooleanBuffer {
    let bits: Vec<bool> = bits.collect();
    if r.coin(1, 2) {
        let pre = r.rng.below(70);
        let post = r.rng.below(20);
        let mut all: Vec<bool> = Vec::with_capacity(bits.len() + pre + post);
        for _ in 0..pre {
            all.push(r.rng.bool());
        }
        all.extend_from_slice(&bits);
        for _ in 0..post {
            all.push(r.rng.bool());
        }
        BooleanBuffer::from(all).slice(pre, bits.len())
    } else {
        BooleanBuffer::from(bits)
    }
}

/// ScalarBuffer over `v`; with chaos embedded in a larger allocation at an
/// element offset, with trailing spare capacity.
pub fn mk_scalar<T: ArrowNativeType>(r: &mut R, v: Vec<T>) -> ScalarBuffer<T> {
    if r.coin(1, 2) {
        let pre = r.rng.below(5);
        let post = r.rng.below(5);
        let n = v.len();
        let sz = std::mem::size_of::<T>();
        let mut mb = MutableBuffer::new((pre + n + post) * sz);
        let junk = r.rng.bytes(pre * sz);
        mb.extend_from_slice(&junk);
        mb.extend_from_slice(&v);
        let junk = r.rng.bytes(post * sz);
        mb.extend_from_slice(&junk);
        let b: Buffer = mb.into();
        ScalarBuffer::new(b, pre, n)
    } else {
        ScalarBuffer::from(v)
    }
}

fn mk_buffer(r: &mut R, v: Vec<u8>) -> Buffer {
    if r.coin(1, 2) {
        let pre = r.rng.below(9);
        let post = r.rng.below(9);
        let n = v.len();
        let mut all = r.rng.bytes(pre);
        all.extend_from_slice(&v);
        all.extend(r.rng.bytes(post));
        Buffer::from_vec(all).slice_with_length(pre, n)
    } else {
        Buffer::from_vec(v)
    }
}

fn mk_prim<T: ArrowPrimitiveType>(
    r: &mut R,
    dt: &DataType,
    vals: &[Val],
    conv: impl Fn(&Val) -> T::Native,
) -> ArrayRef {
    let garbage = r.chaos && r.rng.bool();
    let mut v: Vec<T::Native> = Vec::with_capacity(vals.len());
    for x in vals {
        if x.is_null() {
            if garbage {
                v.push(rand_native::<T::Native>(r.rng));
            } else {
                v.push(T::Native::default());
            }
        } else {
            v.push(conv(x));
        }
    }
    let nulls = nulls_of(r, vals);
    let sb = mk_scalar(r, v);
    Arc::new(PrimitiveArray::<T>::new(sb, nulls).with_data_type(dt.clone()))
}

pub fn rand_native<N: ArrowNativeType>(rng: &mut Rng) -> N {
    let sz = std::mem::size_of::<N>();
    let mut mb = MutableBuffer::new(sz);
    mb.extend_from_slice(&rng.bytes(sz));
    ScalarBuffer::<N>::new(mb.into(), 0, 1)[0]
}

fn vint(v: &Val) -> i128 {
    match v {
        Val::Int(i) => *i,
        other => panic!("model: expected Int, got {other:?}"),
    }
}

fn mk_inner(r: &mut R, dt: &DataType, vals: &[Val], nullable: bool) -> ArrayRef {
    use DataType::*;
    let _ = nullable;
    match dt {
        Null => Arc::new(NullArray::new(vals.len())),
        Boolean => {
            let garbage = r.chaos && r.rng.bool();
            let bits: Vec<bool> = vals
                .iter()
                .map(|v| match v {
                    Val::Bool(b) => *b,
                    _ => garbage && r.rng.bool(),
                })
                .collect();
            let nulls = nulls_of(r, vals);
            let bb = mk_bits(r, bits.into_iter());
            Arc::new(BooleanArray::new(bb, nulls))
        }
        Int8 => mk_prim::<Int8Type>(r, dt, vals, |v| vint(v) as i8),
        Int16 => mk_prim::<Int16Type>(r, dt, vals, |v| vint(v) as i16),
        Int32 => mk_prim::<Int32Type>(r, dt, vals, |v| vint(v) as i32),
        Int64 => mk_prim::<Int64Type>(r, dt, vals, |v| vint(v) as i64),
        UInt8 => mk_prim::<UInt8Type>(r, dt, vals, |v| vint(v) as u8),
        UInt16 => mk_prim::<UInt16Type>(r, dt, vals, |v| vint(v) as u16),
        UInt32 => mk_prim::<UInt32Type>(r, dt, vals, |v| vint(v) as u32),
        UInt64 => mk_prim::<UInt64Type>(r, dt, vals, |v| vint(v) as u64),
        Float16 => mk_prim::<Float16Type>(r, dt, vals, |v| match v {
            Val::F16(b) => half::f16::from_bits(*b),
            o => panic!("model: expected F16 got {o:?}"),
        }),
        Float32 => mk_prim::<Float32Type>(r, dt, vals, |v| match v {
            Val::F32(b) => f32::from_bits(*b),
            o => panic!("model: expected F32 got {o:?}"),
        }),
        Float64 => mk_prim::<Float64Type>(r, dt, vals, |v| match v {
            Val::F64(b) => f64::from_bits(*b),
            o => panic!("model: expected F64 got {o:?}"),
        }),
        Date32 => mk_prim::<Date32Type>(r, dt, vals, |v| vint(v) as i32),
        Date64 => mk_prim::<Date64Type>(r, dt, vals, |v| vint(v) as i64),
        Time32(TimeUnit::Second) => mk_prim::<Time32SecondType>(r, dt, vals, |v| vint(v) as i32),
        Time32(TimeUnit::Millisecond) => {
            mk_prim::<Time32MillisecondType>(r, dt, vals, |v| vint(v) as i32)
        }
        Time64(TimeUnit::Microsecond) => {
            mk_prim::<Time64MicrosecondType>(r, dt, vals, |v| vint(v) as i64)
        }
        Time64(TimeUnit::Nanosecond) => {
            mk_prim::<Time64NanosecondType>(r, dt, vals, |v| vint(v) as i64)
        }
        Time32(_) | Time64(_) => panic!("model: invalid time unit {dt:?}"),
        Timestamp(TimeUnit::Second, _) => {
            mk_prim::<TimestampSecondType>(r, dt, vals, |v| vint(v) as i64)
        }
        Timestamp(TimeUnit::Millisecond, _) => {
            mk_prim::<TimestampMillisecondType>(r, dt, vals, |v| vint(v) as i64)
        }
        Timestamp(TimeUnit::Microsecond, _) => {
            mk_prim::<TimestampMicrosecondType>(r, dt, vals, |v| vint(v) as i64)
        }
        Timestamp(TimeUnit::Nanosecond, _) => {
            mk_prim::<TimestampNanosecondType>(r, dt, vals, |v| vint(v) as i64)
        }
        Duration(TimeUnit::Second) => mk_prim::<DurationSecondType>(r, dt, vals, |v| vint(v) as i64),
        Duration(TimeUnit::Millisecond) => {
            mk_prim::<DurationMillisecondType>(r, dt, vals, |v| vint(v) as i64)
        }
        Duration(TimeUnit::Microsecond) => {
            mk_prim::<DurationMicrosecondType>(r, dt, vals, |v| vint(v) as i64)
        }
        Duration(TimeUnit::Nanosecond) => {
            mk_prim::<DurationNanosecondType>(r, dt, vals, |v| vint(v) as i64)
        }
        Interval(IntervalUnit::YearMonth) => {
            mk_prim::<IntervalYearMonthType>(r, dt, vals, |v| vint(v) as i32)
        }
        Interval(IntervalUnit::DayTime) => mk_prim::<IntervalDayTimeType>(r, dt, vals, |v| match v {
            Val::IntervalDT(d, m) => IntervalDayTime::new(*d, *m),
            o => panic!("model: expected IntervalDT got {o:?}"),
        }),
        Interval(IntervalUnit::MonthDayNano) => {
            mk_prim::<IntervalMonthDayNanoType>(r, dt, vals, |v| match v {
                Val::IntervalMDN(m, d, n) => IntervalMonthDayNano::new(*m, *d, *n),
                o => panic!("model: expected IntervalMDN got {o:?}"),
            })
        }
        Decimal32(_, _) => mk_prim::<Decimal32Type>(r, dt, vals, |v| vint(v) as i32),
        Decimal64(_, _) => mk_prim::<Decimal64Type>(r, dt, vals, |v| vint(v) as i64),
        Decimal128(_, _) => mk_prim::<Decimal128Type>(r, dt, vals, |v| vint(v)),
        Decimal256(_, _) => mk_prim::<Decimal256Type>(r, dt, vals, |v| match v {
            Val::Big(b) => *b,
            Val::Int(i) => i256::from_i128(*i),
            o => panic!("model: expected Big got {o:?}"),
        }),
        Utf8 => mk_bytes::<Utf8Type>(r, vals, true),
        LargeUtf8 => mk_bytes::<LargeUtf8Type>(r, vals, true),
        Binary => mk_bytes::<BinaryType>(r, vals, false),
        LargeBinary => mk_bytes::<LargeBinaryType>(r, vals, false),
        Utf8View => mk_view::<StringViewType>(r, vals, true),
        BinaryView => mk_view::<BinaryViewType>(r, vals, false),
        FixedSizeBinary(w) => {
            let w = *w as usize;
            let garbage = r.chaos && r.rng.bool();
            let mut data: Vec<u8> = Vec::with_capacity(w * vals.len());
            for v in vals {
                match v {
                    Val::Bytes(b) => {
                        assert_eq!(b.len(), w, "model: fsb width");
                        data.extend_from_slice(b)
                    }
                    _ => {
                        if garbage {
                            data.extend(r.rng.bytes(w))
                        } else {
                            data.extend(std::iter::repeat_n(0u8, w))
                        }
                    }
                }
            }
            let nulls = nulls_of(r, vals);
            let buf = mk_buffer(r, data);
            Arc::new(
                FixedSizeBinaryArray::try_new_with_len(w as i32, buf, nulls, vals.len())
                    .expect("fsb try_new"),
            )
        }
        List(f) => mk_list::<i32>(r, f, vals),
        LargeList(f) => mk_list::<i64>(r, f, vals),
        ListView(f) => mk_list_view::<i32>(r, f, vals),
        LargeListView(f) => mk_list_view::<i64>(r, f, vals),
        FixedSizeList(f, n) => {
            let n = *n as usize;
            let mut child: Vec<Val> = Vec::with_capacity(n * vals.len());
            for v in vals {
                match v {
                    Val::List(xs) => {
                        assert_eq!(xs.len(), n, "model: fsl width");
                        child.extend(xs.iter().cloned())
                    }
                    _ => {
                        for _ in 0..n {
                            let g = if r.chaos {
                                garbage_val(r, f.data_type(), f.is_nullable())
                            } else {
                                default_val(f.data_type(), f.is_nullable())
                            };
                            child.push(g);
                        }
                    }
                }
            }
            let nulls = nulls_of(r, vals);
            let c = mk(r, f.data_type(), &child, f.is_nullable());
            Arc::new(
                FixedSizeListArray::try_new_with_length(
                    f.clone(),
                    n as i32,
                    c,
                    nulls,
                    vals.len(),
                )
                .expect("fsl try_new"),
            )
        }
        Struct(fs) => {
            let nulls = nulls_of(r, vals);
            if fs.is_empty() {
                return Arc::new(StructArray::new_empty_fields(vals.len(), nulls));
            }
            let mut cols: Vec<ArrayRef> = Vec::with_capacity(fs.len());
            for (i, f) in fs.iter().enumerate() {
                let cv: Vec<Val> = vals
                    .iter()
                    .map(|v| match v {
                        Val::Struct(xs) => xs[i].clone(),
                        _ => {
                            if r.chaos {
                                garbage_val(r, f.data_type(), f.is_nullable())
                            } else {
                                default_val(f.data_type(), f.is_nullable())
                            }
                        }
                    })
                    .collect();
                cols.push(mk(r, f.data_type(), &cv, f.is_nullable()));
            }
            Arc::new(StructArray::try_new(fs.clone(), cols, nulls).expect("struct try_new"))
        }
        Map(entries, ordered) => {
            let (offsets, child, nulls) = list_parts::<i32>(r, entries, vals);
            let c = mk(r, entries.data_type(), &child, false);
            let c = c.as_any().downcast_ref::<StructArray>().unwrap().clone();
            Arc::new(
                MapArray::try_new(entries.clone(), offsets, c, nulls, *ordered)
                    .expect("map try_new"),
            )
        }
        Union(ufs, mode) => {
            let n = vals.len();
            let ids: Vec<i8> = ufs.iter().map(|(i, _)| i).collect();
            let mut type_ids: Vec<i8> = Vec::with_capacity(n);
            for v in vals {
                match v {
                    Val::Union(t, _) => type_ids.push(*t),
                    o => panic!("model: expected Union got {o:?}"),
                }
            }
            match mode {
                UnionMode::Sparse => {
                    let mut children = Vec::new();
                    for (tid, f) in ufs.iter() {
                        let cv: Vec<Val> = vals
                            .iter()
                            .map(|v| match v {
                                Val::Union(t, x) if *t == tid => (**x).clone(),
                                _ => {
                                    if r.chaos {
                                        garbage_val(r, f.data_type(), f.is_nullable())
                                    } else {
                                        default_val(f.data_type(), f.is_nullable())
                                    }
                                }
                            })
                            .collect();
                        children.push(mk(r, f.data_type(), &cv, f.is_nullable()));
                    }
                    let t = mk_scalar(r, type_ids);
                    Arc::new(
                        UnionArray::try_new(ufs.clone(), t, None, children)
                            .expect("sparse union try_new"),
                    )
                }
                UnionMode::Dense => {
                    // per child: list of values; offsets into them
                    let mut cvals: Vec<Vec<Val>> = vec![Vec::new(); ids.len()];
                    let mut offsets: Vec<i32> = Vec::with_capacity(n);
                    let permute = r.coin(1, 2);
                    for v in vals {
                        let Val::Union(t, x) = v else { unreachable!() };
                        let ci = ids.iter().position(|i| i == t).expect("type id");
                        if permute && r.rng.chance(1, 4) {
                            // unused entry
                            let f = &ufs.iter().nth(ci).unwrap().1;
                            let g = garbage_val(r, f.data_type(), f.is_nullable());
                            cvals[ci].push(g);
                        }
                        offsets.push(cvals[ci].len() as i32);
                        cvals[ci].push((**x).clone());
                    }
                    let mut children = Vec::new();
                    for (ci, (_, f)) in ufs.iter().enumerate() {
                        if permute && cvals[ci].len() > 1 {
                            // reverse the child and remap offsets
                            let m = cvals[ci].len() as i32;
                            cvals[ci].reverse();
                            for (j, v) in vals.iter().enumerate() {
                                let Val::Union(t, _) = v else { unreachable!() };
                                if ids[ci] == *t {
                                    offsets[j] = m - 1 - offsets[j];
                                }
                            }
                        }
                        children.push(mk(r, f.data_type(), &cvals[ci], f.is_nullable()));
                    }
                    let t = mk_scalar(r, type_ids);
                    let o = mk_scalar(r, offsets);
                    Arc::new(
                        UnionArray::try_new(ufs.clone(), t, Some(o), children)
                            .expect("dense union try_new"),
                    )
                }
            }
        }
        Dictionary(k, v) => match **k {
            Int8 => mk_dict::<Int8Type>(r, v, vals),
            Int16 => mk_dict::<Int16Type>(r, v, vals),
            Int32 => mk_dict::<Int32Type>(r, v, vals),
            Int64 => mk_dict::<Int64Type>(r, v, vals),
            UInt8 => mk_dict::<UInt8Type>(r, v, vals),
            UInt16 => mk_dict::<UInt16Type>(r, v, vals),
            UInt32 => mk_dict::<UInt32Type>(r, v, vals),
            UInt64 => mk_dict::<UInt64Type>(r, v, vals),
            _ => panic!("model: bad dictionary key type"),
        },
        RunEndEncoded(re, v) => match re.data_type() {
            Int16 => mk_ree::<Int16Type>(r, v, vals),
            Int32 => mk_ree::<Int32Type>(r, v, vals),
            Int64 => mk_ree::<Int64Type>(r, v, vals),
            _ => panic!("model: bad run end type"),
        },
    }
}

/// A deterministic filler value for null slots in the canonical layout.
pub fn default_val(dt: &DataType, nullable: bool) -> Val {
    use DataType::*;
    if nullable && gens::can_be_null(dt) {
        return Val::Null;
    }
    match dt {
        Null => Val::Null,
        Boolean => Val::Bool(false),
        Float16 => Val::F16(0),
        Float32 => Val::F32(0),
        Float64 => Val::F64(0),
        Interval(IntervalUnit::DayTime) => Val::IntervalDT(0, 0),
        Interval(IntervalUnit::MonthDayNano) => Val::IntervalMDN(0, 0, 0),
        Decimal256(_, _) => Val::Big(i256::ZERO),
        Utf8 | LargeUtf8 | Utf8View => Val::Str(String::new()),
        Binary | LargeBinary | BinaryView => Val::Bytes(vec![]),
        FixedSizeBinary(w) => Val::Bytes(vec![0; *w as usize]),
        List(_) | LargeList(_) | ListView(_) | LargeListView(_) | Map(_, _) => Val::List(vec![]),
        FixedSizeList(f, n) => Val::List(
            (0..*n)
                .map(|_| default_val(f.data_type(), f.is_nullable()))
                .collect(),
        ),
        Struct(fs) => Val::Struct(
            fs.iter()
                .map(|f| default_val(f.data_type(), f.is_nullable()))
                .collect(),
        ),
        Union(ufs, _) => {
            let (t, f) = ufs.iter().next().unwrap();
            Val::Union(t, Box::new(default_val(f.data_type(), f.is_nullable())))
        }
        Dictionary(_, v) => default_val(v, false),
        RunEndEncoded(_, v) => default_val(v.data_type(), false),
        _ => Val::Int(0),
    }
}

fn mk_bytes<T: ByteArrayType>(r: &mut R, vals: &[Val], utf8: bool) -> ArrayRef {
    let garbage = r.chaos && r.rng.bool();
    let mut data: Vec<u8> = Vec::new();
    // unreferenced prefix => first offset != 0
    if r.coin(1, 3) {
        let g = if utf8 {
            gens::gen_string(r.rng).into_bytes()
        } else {
            gens::gen_bytes(r.rng)
        };
        data.extend(g);
    }
    let mut offsets: Vec<T::Offset> = Vec::with_capacity(vals.len() + 1);
    offsets.push(T::Offset::usize_as(data.len()));
    for v in vals {
        match v {
            Val::Str(s) => data.extend_from_slice(s.as_bytes()),
            Val::Bytes(b) => data.extend_from_slice(b),
            Val::Null => {
                if garbage && r.rng.bool() {
                    let g = if utf8 {
                        gens::gen_string(r.rng).into_bytes()
                    } else {
                        gens::gen_bytes(r.rng)
                    };
                    data.extend(g);
                }
            }
            o => panic!("model: expected bytes got {o:?}"),
        }
        offsets.push(T::Offset::usize_as(data.len()));
    }
    if r.coin(1, 3) {
        // unreferenced suffix
        data.extend_from_slice(b"zz");
    }
    let nulls = nulls_of(r, vals);
    let ob = OffsetBuffer::new(mk_scalar(r, offsets));
    let vb = mk_buffer(r, data);
    Arc::new(GenericByteArray::<T>::try_new(ob, vb, nulls).expect("byte array try_new"))
}

fn mk_view<T: ByteViewType + ?Sized>(r: &mut R, vals: &[Val], utf8: bool) -> ArrayRef {
    let garbage = r.chaos && r.rng.bool();
    let mut buffers: Vec<Vec<u8>> = Vec::new();
    let mut views: Vec<u128> = Vec::with_capacity(vals.len());
    // partition policy: start a new data buffer with this probability
    let newbuf_den = if r.chaos { *r.rng.pick(&[1u32, 3, 50]) } else { 1_000_000 };
    let mut seen: HashMap<Vec<u8>, (u32, u32)> = HashMap::new();
    let dedup = r.coin(1, 2);
    if r.coin(1, 4) {
        buffers.push(b"unused-buffer".to_vec());
    }
    for v in vals {
        let owned: Vec<u8>;
        let bytes: &[u8] = match v {
            Val::Str(s) => s.as_bytes(),
            Val::Bytes(b) => b,
            Val::Null => {
                if garbage && r.rng.bool() {
                    owned = if utf8 {
                        gens::gen_string(r.rng).into_bytes()
                    } else {
                        gens::gen_bytes(r.rng)
                    };
                    &owned
                } else {
                    &[]
                }
            }
            o => panic!("model: expected bytes got {o:?}"),
        };
        if bytes.len() <= 12 {
            let mut raw = [0u8; 16];
            raw[0..4].copy_from_slice(&(bytes.len() as u32).to_le_bytes());
            raw[4..4 + bytes.len()].copy_from_slice(bytes);
            views.push(u128::from_le_bytes(raw));
        } else {
            let (bi, off) = if dedup && seen.contains_key(bytes) {
                seen[bytes]
            } else {
                if buffers.is_empty() || r.rng.chance(1, newbuf_den) {
                    buffers.push(Vec::new());
                }
                let bi = buffers.len() - 1;
                if r.chaos && r.rng.chance(1, 5) {
                    // unused bytes between values
                    buffers[bi].extend_from_slice(b"\0\0\0");
                }
                let off = buffers[bi].len();
                buffers[bi].extend_from_slice(bytes);
                seen.insert(bytes.to_vec(), (bi as u32, off as u32));
                (bi as u32, off as u32)
            };
            let mut raw = [0u8; 16];
            raw[0..4].copy_from_slice(&(bytes.len() as u32).to_le_bytes());
            raw[4..8].copy_from_slice(&bytes[..4]);
            raw[8..12].copy_from_slice(&bi.to_le_bytes());
            raw[12..16].copy_from_slice(&off.to_le_bytes());
            views.push(u128::from_le_bytes(raw));
        }
    }
    if r.coin(1, 4) {
        buffers.push(Vec::new());
    }
    let nulls = nulls_of(r, vals);
    let vb = mk_scalar(r, views);
    let bufs: Vec<Buffer> = buffers.into_iter().map(|b| mk_buffer(r, b)).collect();
    Arc::new(GenericByteViewArray::<T>::try_new(vb, bufs, nulls).expect("view try_new"))
}

/// offsets, flattened child values, nulls for list-like layouts
fn list_parts<O: OffsetSizeTrait>(
    r: &mut R,
    f: &FieldRef,
    vals: &[Val],
) -> (OffsetBuffer<O>, Vec<Val>, Option<NullBuffer>) {
    let garbage = r.chaos && r.rng.bool();
    let mut child: Vec<Val> = Vec::new();
    if r.coin(1, 3) {
        for _ in 0..1 + r.rng.below(3) {
            let g = garbage_val(r, f.data_type(), f.is_nullable());
            child.push(g);
        }
    }
    let mut offsets: Vec<O> = Vec::with_capacity(vals.len() + 1);
    offsets.push(O::usize_as(child.len()));
    for v in vals {
        match v {
            Val::List(xs) => child.extend(xs.iter().cloned()),
            Val::Null => {
                if garbage && r.rng.bool() {
                    for _ in 0..1 + r.rng.below(3) {
                        let g = garbage_val(r, f.data_type(), f.is_nullable());
                        child.push(g);
                    }
                }
            }
            o => panic!("model: expected list got {o:?}"),
        }
        offsets.push(O::usize_as(child.len()));
    }
    if r.coin(1, 3) {
        let g = garbage_val(r, f.data_type(), f.is_nullable());
        child.push(g);
    }
    let nulls = nulls_of(r, vals);
    let ob = OffsetBuffer::new(mk_scalar(r, offsets));
    (ob, child, nulls)
}

fn mk_list<O: OffsetSizeTrait>(r: &mut R, f: &FieldRef, vals: &[Val]) -> ArrayRef {
    let (ob, child, nulls) = list_parts::<O>(r, f, vals);
    let c = mk(r, f.data_type(), &child, f.is_nullable());
    Arc::new(GenericListArray::<O>::try_new(f.clone(), ob, c, nulls).expect("list try_new"))
}

fn mk_list_view<O: OffsetSizeTrait>(r: &mut R, f: &FieldRef, vals: &[Val]) -> ArrayRef {
    let garbage = r.chaos && r.rng.bool();
    let reorder = r.coin(1, 2);
    let share = r.coin(1, 2);
    // order in which the lists are laid out in the child
    let mut order: Vec<usize> = (0..vals.len()).collect();
    if reorder {
        r.rng.shuffle(&mut order);
    }
    let mut child: Vec<Val> = Vec::new();
    let mut offsets: Vec<O> = vec![O::usize_as(0); vals.len()];
    let mut sizes: Vec<O> = vec![O::usize_as(0); vals.len()];
    let mut seen: HashMap<Vec<Val>, usize> = HashMap::new();
    for &i in &order {
        if reorder && r.rng.chance(1, 5) {
            let g = garbage_val(r, f.data_type(), f.is_nullable());
            child.push(g); // sparse usage
        }
        match &vals[i] {
            Val::List(xs) => {
                if share && !xs.is_empty() && seen.contains_key(xs) {
                    offsets[i] = O::usize_as(seen[xs]);
                } else {
                    offsets[i] = O::usize_as(child.len());
                    seen.insert(xs.clone(), child.len());
                    child.extend(xs.iter().cloned());
                }
                sizes[i] = O::usize_as(xs.len());
            }
            Val::Null => {
                if garbage && !child.is_empty() && r.rng.bool() {
                    // arbitrary in-bounds extent under a null
                    let off = r.rng.below(child.len());
                    let sz = r.rng.below(child.len() - off + 1);
                    offsets[i] = O::usize_as(off);
                    sizes[i] = O::usize_as(sz);
                }
            }
            o => panic!("model: expected list got {o:?}"),
        }
    }
    let nulls = nulls_of(r, vals);
    let c = mk(r, f.data_type(), &child, f.is_nullable());
    let ob = mk_scalar(r, offsets);
    let sb = mk_scalar(r, sizes);
    Arc::new(
        GenericListViewArray::<O>::try_new(f.clone(), ob, sb, c, nulls)
            .expect("list view try_new"),
    )
}

fn mk_dict<K: ArrowDictionaryKeyType>(r: &mut R, vt: &DataType, vals: &[Val]) -> ArrayRef
where
    K::Native: TryFrom<usize>,
{
    // where do nulls live: in the keys (canonical) or as a null dictionary value
    let null_in_values = r.coin(1, 3);
    let mut dict: Vec<Val> = Vec::new();
    let mut index: HashMap<Val, Vec<usize>> = HashMap::new();
    let dup = r.coin(1, 3);
    let unused = r.coin(1, 3);
    if unused {
        for _ in 0..1 + r.rng.below(3) {
            dict.push(gens::gen_value(r.rng, vt, &TypeCfg::all()));
        }
    }
    for v in vals {
        if v.is_null() && !null_in_values {
            continue;
        }
        let e = index.entry(v.clone()).or_default();
        if e.is_empty() || (dup && r.rng.chance(1, 4) && dict.len() < 100) {
            e.push(dict.len());
            dict.push(v.clone());
        }
    }
    // permute dictionary entries
    let mut perm: Vec<usize> = (0..dict.len()).collect();
    if r.coin(1, 2) {
        r.rng.shuffle(&mut perm);
    }
    // perm[new] = old ; inverse: old -> new
    let mut inv = vec![0usize; dict.len()];
    for (new, &old) in perm.iter().enumerate() {
        inv[old] = new;
    }
    let dict_p: Vec<Val> = perm.iter().map(|&o| dict[o].clone()).collect();
    let garbage = r.chaos && r.rng.bool();
    let cap_ok = |x: usize| K::Native::try_from(x).ok();
    let mut keys: Vec<K::Native> = Vec::with_capacity(vals.len());
    let mut valid: Vec<bool> = Vec::with_capacity(vals.len());
    for v in vals {
        if v.is_null() && !null_in_values {
            valid.push(false);
            if garbage {
                // arbitrary (possibly out-of-range) key under a null
                let g = r.rng.below(300);
                keys.push(cap_ok(g).unwrap_or_default());
            } else {
                keys.push(K::Native::default());
            }
        } else {
            let cands = &index[v];
            let old = cands[r.rng.below(cands.len())];
            let k = cap_ok(inv[old]).expect("model: dictionary too large for key type");
            keys.push(k);
            valid.push(true);
        }
    }
    let nulls = if valid.iter().all(|b| *b) && !r.coin(1, 3) {
        None
    } else {
        Some(mk_nulls(r, valid.into_iter()))
    };
    let kb = mk_scalar(r, keys);
    let karr = PrimitiveArray::<K>::new(kb, nulls);
    let varr = mk(r, vt, &dict_p, true);
    Arc::new(DictionaryArray::<K>::try_new(karr, varr).expect("dict try_new"))
}

fn mk_ree<Rt: RunEndIndexType>(r: &mut R, vf: &FieldRef, vals: &[Val]) -> ArrayRef
where
    Rt::Native: TryFrom<usize>,
{
    let split = r.coin(1, 2);
    let mut run_ends: Vec<Rt::Native> = Vec::new();
    let mut rvals: Vec<Val> = Vec::new();
    for (i, v) in vals.iter().enumerate() {
        let same = i > 0 && vals[i - 1] == *v;
        if same && !(split && r.rng.chance(1, 3)) {
            *run_ends.last_mut().unwrap() = Rt::Native::try_from(i + 1).ok().expect("run end");
        } else {
            run_ends.push(Rt::Native::try_from(i + 1).ok().expect("run end"));
            rvals.push(v.clone());
        }
    }
    let re = PrimitiveArray::<Rt>::new(mk_scalar(r, run_ends), None);
    let va = mk(r, vf.data_type(), &rvals, true);
    match RunArray::<Rt>::try_new(&re, va.as_ref()) {
        Ok(a) => Arc::new(a),
        Err(e) => panic!("ree try_new: {e}"),
    }
}

/// Convenience: a field for a top-level column
pub fn top_field(name: &str, dt: &DataType, vals: &[Val]) -> Field {
    let _ = vals;
    Field::new(name, dt.clone(), true)
}
