//! Logical value model. A logical column is `(DataType, Vec<Val>)`; dictionary,
//! run-end, view, list-view, sparse/dense layout are encodings, not values.

use arrow_buffer::i256;
use std::fmt;

#[derive(Clone, PartialEq, Eq, Hash, PartialOrd, Ord)]
pub enum Val {
    Null,
    Bool(bool),
    /// every integer-backed type up to 128 bits: ints, dates, times, timestamps,
    /// durations, decimal32/64/128, interval year-month
    Int(i128),
    /// Decimal256
    Big(i256),
    F16(u16),
    F32(u32),
    F64(u64),
    Bytes(Vec<u8>),
    Str(String),
    /// (days, millis)
    IntervalDT(i32, i32),
    /// (months, days, nanos)
    IntervalMDN(i32, i32, i64),
    /// list / large list / list view / fixed-size list / map (entries as Struct[k, v])
    List(Vec<Val>),
    Struct(Vec<Val>),
    /// (type id, value)
    Union(i8, Box<Val>),
}

impl Val {
    pub fn is_null(&self) -> bool {
        matches!(self, Val::Null)
    }
    pub fn int(&self) -> Option<i128> {
        match self {
            Val::Int(v) => Some(*v),
            _ => None,
        }
    }
    pub fn as_str(&self) -> Option<&str> {
        match self {
            Val::Str(s) => Some(s),
            _ => None,
        }
    }
    pub fn as_bytes(&self) -> Option<&[u8]> {
        match self {
            Val::Bytes(b) => Some(b),
            Val::Str(s) => Some(s.as_bytes()),
            _ => None,
        }
    }
    pub fn as_bool(&self) -> Option<bool> {
        match self {
            Val::Bool(b) => Some(*b),
            _ => None,
        }
    }
    pub fn f64(&self) -> Option<f64> {
        match self {
            Val::F64(b) => Some(f64::from_bits(*b)),
            Val::F32(b) => Some(f32::from_bits(*b) as f64),
            Val::F16(b) => Some(half::f16::from_bits(*b).to_f64()),
            _ => None,
        }
    }
}

impl fmt::Debug for Val {
    fn fmt(&self, f: &mut fmt::Formatter<'_>) -> fmt::Result {
        match self {
            Val::Null => write!(f, "NULL"),
            Val::Bool(b) => write!(f, "{b}"),
            Val::Int(i) => write!(f, "{i}"),
            Val::Big(i) => write!(f, "{i}#256"),
            Val::F16(b) => write!(f, "f16:{:?}/{b:#x}", half::f16::from_bits(*b)),
            Val::F32(b) => write!(f, "f32:{:?}/{b:#x}", f32::from_bits(*b)),
            Val::F64(b) => write!(f, "f64:{:?}/{b:#x}", f64::from_bits(*b)),
            Val::Bytes(b) => {
                write!(f, "x'")?;
                for c in b.iter().take(80) {
                    write!(f, "{c:02x}")?;
                }
                if b.len() > 80 {
                    write!(f, "..({})", b.len())?;
                }
                write!(f, "'")
            }
            Val::Str(s) => {
                if s.len() > 120 {
                    let cut = (0..=120).rev().find(|i| s.is_char_boundary(*i)).unwrap();
                    write!(f, "{:?}..({})", &s[..cut], s.len())
                } else {
                    write!(f, "{s:?}")
                }
            }
            Val::IntervalDT(d, m) => write!(f, "dt({d},{m})"),
            Val::IntervalMDN(m, d, n) => write!(f, "mdn({m},{d},{n})"),
            Val::List(v) => f.debug_list().entries(v.iter()).finish(),
            Val::Struct(v) => {
                write!(f, "{{")?;
                for (i, x) in v.iter().enumerate() {
                    if i > 0 {
                        write!(f, ", ")?;
                    }
                    write!(f, "{x:?}")?;
                }
                write!(f, "}}")
            }
            Val::Union(t, v) => write!(f, "u{t}:{v:?}"),
        }
    }
}

/// Short textual dump of a column for samples / replays (bounded length).
pub fn dump_vals(vals: &[Val]) -> String {
    let mut s = String::new();
    s.push('[');
    for (i, v) in vals.iter().enumerate() {
        if i > 0 {
            s.push_str(", ");
        }
        if s.len() > 1500 {
            s.push_str(&format!("..({} rows)", vals.len()));
            break;
        }
        s.push_str(&format!("{v:?}"));
    }
    s.push(']');
    s
}
