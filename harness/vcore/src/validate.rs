//! Independent Arrow-format validator, written from `format/Columnar.rst`
//! (not from `arrow-data/src/data.rs`), plus an accessor exercise.
//!
//! Deliberately lenient where the specification is silent (monotonic dense
//! union offsets, content of unreferenced child regions, bytes under nulls
//! other than those that an accessor would interpret).

use arrow_array::{Array, ArrayRef, RecordBatch, make_array};
use arrow_buffer::{ArrowNativeType, Buffer, ScalarBuffer, i256};
use arrow_data::ArrayData;
use arrow_schema::{DataType, Field, IntervalUnit, UnionMode};

type VResult = Result<(), String>;

fn err<T>(s: String) -> Result<T, String> {
    Err(s)
}

fn typed<T: ArrowNativeType>(
    b: &Buffer,
    start: usize,
    len: usize,
    what: &str,
) -> Result<ScalarBuffer<T>, String> {
    let sz = std::mem::size_of::<T>();
    let end = start
        .checked_add(len)
        .ok_or_else(|| format!("{what}: offset+len overflows"))?;
    let need = end
        .checked_mul(sz)
        .ok_or_else(|| format!("{what}: byte size overflows"))?;
    if b.len() < need {
        return err(format!(
            "{what}: buffer has {} bytes, needs {need} for offset {start} + len {len}",
            b.len()
        ));
    }
    if len > 0 || !b.is_empty() {
        let p = b.as_ptr() as usize;
        if p % std::mem::align_of::<T>() != 0 {
            return err(format!(
                "{what}: buffer pointer {p:#x} not aligned to {}",
                std::mem::align_of::<T>()
            ));
        }
    }
    if len == 0 {
        return Ok(ScalarBuffer::from(Vec::<T>::new()));
    }
    Ok(ScalarBuffer::new(b.clone(), start, len))
}

fn valid_at(d: &ArrayData, i: usize) -> bool {
    match d.nulls() {
        Some(n) => n.is_valid(i),
        None => true,
    }
}

fn nbuf(d: &ArrayData, n: usize) -> VResult {
    if d.buffers().len() != n {
        return err(format!(
            "{}: expected {n} buffers, found {}",
            d.data_type(),
            d.buffers().len()
        ));
    }
    Ok(())
}

fn nchild(d: &ArrayData, n: usize) -> VResult {
    if d.child_data().len() != n {
        return err(format!(
            "{}: expected {n} children, found {}",
            d.data_type(),
            d.child_data().len()
        ));
    }
    Ok(())
}

fn child_type(d: &ArrayData, i: usize, f: &Field) -> VResult {
    let c = &d.child_data()[i];
    // names and metadata of nested fields are schema, not array layout
    if !c.data_type().equals_datatype(f.data_type()) {
        return err(format!(
            "child {i} has type {} but field declares {}",
            c.data_type(),
            f.data_type()
        ));
    }
    Ok(())
}

/// nulls inside the referenced region `[start, start+len)` of a non-nullable child
fn child_no_nulls(c: &ArrayData, start: usize, len: usize, f: &Field, parent_valid: Option<&dyn Fn(usize) -> bool>, parent_has_nulls: bool) -> VResult {
    if f.is_nullable() {
        return Ok(());
    }
    // a null further up (grandparent, ...) also excuses a null here
    if ANC_NULLS.with(|c| c.get()) > parent_has_nulls as u32 {
        return Ok(());
    }
    if let Some(n) = c.nulls() {
        for i in 0..len {
            if start + i < n.len() && n.is_null(start + i) {
                if let Some(pv) = parent_valid {
                    if !pv(i) {
                        continue;
                    }
                }
                return err(format!(
                    "non-nullable field {:?} has a null at child index {}",
                    f.name(),
                    start + i
                ));
            }
        }
    }
    Ok(())
}

thread_local! {
    /// number of enclosing nodes (including the one being validated) that carry nulls: a
    /// non-nullable struct / fixed-size-list child may legally hold a null wherever ANY
    /// ancestor is null, and only the direct parent's validity is at hand row-wise, so the
    /// non-nullable-child rule is applied only when no farther ancestor has nulls (lenient)
    static ANC_NULLS: std::cell::Cell<u32> = const { std::cell::Cell::new(0) };
}

pub fn spec_validate(d: &ArrayData) -> VResult {
    let has = d.nulls().map(|n| n.null_count() > 0).unwrap_or(false) as u32;
    ANC_NULLS.with(|c| c.set(c.get() + has));
    let r = spec_validate_inner(d).map_err(|e| format!("[{}] {e}", d.data_type()));
    ANC_NULLS.with(|c| c.set(c.get() - has));
    r
}

fn spec_validate_inner(d: &ArrayData) -> VResult {
    use DataType::*;
    let len = d.len();
    let off = d.offset();
    let end = off
        .checked_add(len)
        .ok_or_else(|| "len + offset overflows usize".to_string())?;

    // validity bitmap: length and exact null count
    if let Some(n) = d.nulls() {
        if n.len() != len {
            return err(format!("validity has {} bits, array len {len}", n.len()));
        }
        let inner = n.inner();
        let need_bits = inner
            .offset()
            .checked_add(inner.len())
            .ok_or("validity offset+len overflows")?;
        if inner.inner().len() < need_bits.div_ceil(8) {
            return err(format!(
                "validity buffer has {} bytes, needs {}",
                inner.inner().len(),
                need_bits.div_ceil(8)
            ));
        }
        let bytes = inner.inner().as_slice();
        let mut zeros = 0usize;
        for i in 0..len {
            let b = inner.offset() + i;
            if bytes[b / 8] & (1 << (b % 8)) == 0 {
                zeros += 1;
            }
        }
        if zeros != n.null_count() {
            return err(format!(
                "null_count is {} but validity bitmap has {zeros} unset bits",
                n.null_count()
            ));
        }
        if matches!(d.data_type(), Null | Union(_, _) | RunEndEncoded(_, _)) {
            return err(format!("{} must not have a validity bitmap", d.data_type()));
        }
    }

    match d.data_type() {
        Null => {
            nbuf(d, 0)?;
            nchild(d, 0)
        }
        Boolean => {
            nbuf(d, 1)?;
            nchild(d, 0)?;
            if d.buffers()[0].len() < end.div_ceil(8) {
                return err(format!(
                    "boolean values buffer has {} bytes, needs {}",
                    d.buffers()[0].len(),
                    end.div_ceil(8)
                ));
            }
            Ok(())
        }
        Int8 | UInt8 => fixed::<u8>(d, off, len),
        Int16 | UInt16 | Float16 => fixed::<u16>(d, off, len),
        Int32 | UInt32 | Float32 | Date32 | Time32(_) | Decimal32(_, _)
        | Interval(IntervalUnit::YearMonth) => fixed::<u32>(d, off, len),
        Int64 | UInt64 | Float64 | Date64 | Time64(_) | Timestamp(_, _) | Duration(_)
        | Decimal64(_, _) => fixed::<u64>(d, off, len),
        Interval(IntervalUnit::DayTime) => {
            nbuf(d, 1)?;
            nchild(d, 0)?;
            typed::<i32>(&d.buffers()[0], off.checked_mul(2).ok_or("ovf")?, len.checked_mul(2).ok_or("ovf")?, "interval day-time")?;
            Ok(())
        }
        // month-day-nano is {i32, i32, i64}: 16 bytes wide, 8-byte aligned
        Interval(IntervalUnit::MonthDayNano) => {
            nbuf(d, 1)?;
            nchild(d, 0)?;
            typed::<u64>(
                &d.buffers()[0],
                off.checked_mul(2).ok_or("ovf")?,
                len.checked_mul(2).ok_or("ovf")?,
                "interval month-day-nano",
            )?;
            Ok(())
        }
        Decimal128(_, _) => fixed::<i128>(d, off, len),
        Decimal256(_, _) => fixed::<i256>(d, off, len),
        Utf8 => bytes_like::<i32>(d, off, len, true),
        LargeUtf8 => bytes_like::<i64>(d, off, len, true),
        Binary => bytes_like::<i32>(d, off, len, false),
        LargeBinary => bytes_like::<i64>(d, off, len, false),
        Utf8View => views(d, off, len, true),
        BinaryView => views(d, off, len, false),
        FixedSizeBinary(w) => {
            nbuf(d, 1)?;
            nchild(d, 0)?;
            if *w < 0 {
                return err(format!("negative fixed size {w}"));
            }
            let need = end
                .checked_mul(*w as usize)
                .ok_or("fixed size binary byte size overflows")?;
            if d.buffers()[0].len() < need {
                return err(format!(
                    "fixed-size binary buffer has {} bytes, needs {need}",
                    d.buffers()[0].len()
                ));
            }
            Ok(())
        }
        List(f) => list_like::<i32>(d, off, len, f),
        LargeList(f) => list_like::<i64>(d, off, len, f),
        Map(f, _) => {
            list_like::<i32>(d, off, len, f)?;
            let c = &d.child_data()[0];
            match c.data_type() {
                Struct(fs) if fs.len() == 2 => {}
                other => return err(format!("map entries must be a 2-field struct, got {other}")),
            }
            Ok(())
        }
        ListView(f) => list_view::<i32>(d, off, len, f),
        LargeListView(f) => list_view::<i64>(d, off, len, f),
        FixedSizeList(f, n) => {
            nbuf(d, 0)?;
            nchild(d, 1)?;
            child_type(d, 0, f)?;
            if *n < 0 {
                return err(format!("negative fixed list size {n}"));
            }
            let n = *n as usize;
            let c = &d.child_data()[0];
            let need = end.checked_mul(n).ok_or("fixed size list child length overflows")?;
            if c.len() < need {
                return err(format!(
                    "fixed-size list child has {} values, needs {need}",
                    c.len()
                ));
            }
            let pv = |i: usize| valid_at(d, i / n.max(1));
            child_no_nulls(c, off * n, len * n, f, Some(&pv), d.null_count() > 0)?;
            spec_validate(c)
        }
        Struct(fs) => {
            nbuf(d, 0)?;
            nchild(d, fs.len())?;
            for (i, f) in fs.iter().enumerate() {
                child_type(d, i, f)?;
                let c = &d.child_data()[i];
                if c.len() < end {
                    return err(format!(
                        "struct child {i} has {} rows, needs offset {off} + len {len}",
                        c.len()
                    ));
                }
                let pv = |j: usize| valid_at(d, j);
                child_no_nulls(c, off, len, f, Some(&pv), d.null_count() > 0)?;
                spec_validate(c)?;
            }
            Ok(())
        }
        Union(ufs, mode) => {
            nchild(d, ufs.len())?;
            match mode {
                UnionMode::Sparse => nbuf(d, 1)?,
                UnionMode::Dense => nbuf(d, 2)?,
            }
            let tids = typed::<i8>(&d.buffers()[0], off, len, "union type ids")?;
            let ids: Vec<i8> = ufs.iter().map(|(i, _)| i).collect();
            for (ci, (_, f)) in ufs.iter().enumerate() {
                child_type(d, ci, f)?;
            }
            match mode {
                UnionMode::Sparse => {
                    for (ci, _) in ids.iter().enumerate() {
                        if d.child_data()[ci].len() < end {
                            return err(format!(
                                "sparse union child {ci} has {} rows, needs {end}",
                                d.child_data()[ci].len()
                            ));
                        }
                    }
                    for (i, t) in tids.iter().enumerate() {
                        if !ids.contains(t) {
                            return err(format!("union type id {t} at {i} is not declared"));
                        }
                    }
                }
                UnionMode::Dense => {
                    let offs = typed::<i32>(&d.buffers()[1], off, len, "union offsets")?;
                    for (i, (t, o)) in tids.iter().zip(offs.iter()).enumerate() {
                        let Some(ci) = ids.iter().position(|x| x == t) else {
                            return err(format!("union type id {t} at {i} is not declared"));
                        };
                        let cl = d.child_data()[ci].len();
                        if *o < 0 || *o as usize >= cl {
                            return err(format!(
                                "dense union offset {o} at {i} outside child {ci} of length {cl}"
                            ));
                        }
                    }
                }
            }
            for c in d.child_data() {
                spec_validate(c)?;
            }
            Ok(())
        }
        Dictionary(k, v) => {
            nbuf(d, 1)?;
            nchild(d, 1)?;
            let c = &d.child_data()[0];
            if c.data_type() != &**v {
                return err(format!(
                    "dictionary values have type {} but declared {v}",
                    c.data_type()
                ));
            }
            let n = c.len() as i128;
            macro_rules! keys {
                ($t:ty) => {{
                    let ks = typed::<$t>(&d.buffers()[0], off, len, "dictionary keys")?;
                    for (i, k) in ks.iter().enumerate() {
                        if valid_at(d, i) {
                            let k = *k as i128;
                            if k < 0 || k >= n {
                                return err(format!(
                                    "dictionary key {k} at {i} outside [0, {n})"
                                ));
                            }
                        }
                    }
                }};
            }
            match **k {
                Int8 => keys!(i8),
                Int16 => keys!(i16),
                Int32 => keys!(i32),
                Int64 => keys!(i64),
                UInt8 => keys!(u8),
                UInt16 => keys!(u16),
                UInt32 => keys!(u32),
                UInt64 => keys!(u64),
                _ => return err(format!("invalid dictionary key type {k}")),
            }
            spec_validate(c)
        }
        RunEndEncoded(rf, vf) => {
            nbuf(d, 0)?;
            nchild(d, 2)?;
            child_type(d, 0, rf)?;
            child_type(d, 1, vf)?;
            let re = &d.child_data()[0];
            let va = &d.child_data()[1];
            if re.nulls().map(|n| n.null_count()).unwrap_or(0) != 0 {
                return err("run ends contain nulls".into());
            }
            if re.len() != va.len() {
                return err(format!(
                    "run ends ({}) and values ({}) differ in length",
                    re.len(),
                    va.len()
                ));
            }
            spec_validate(re)?;
            macro_rules! runs {
                ($t:ty) => {{
                    let rs = typed::<$t>(&re.buffers()[0], re.offset(), re.len(), "run ends")?;
                    let mut prev: i128 = 0;
                    for (i, r) in rs.iter().enumerate() {
                        let r = *r as i128;
                        if r <= prev {
                            return err(format!(
                                "run end {r} at {i} is not strictly greater than {prev}"
                            ));
                        }
                        prev = r;
                    }
                    if (end as i128) > prev {
                        return err(format!(
                            "last run end {prev} does not cover offset {off} + len {len}"
                        ));
                    }
                }};
            }
            match rf.data_type() {
                Int16 => runs!(i16),
                Int32 => runs!(i32),
                Int64 => runs!(i64),
                other => return err(format!("invalid run end type {other}")),
            }
            spec_validate(va)
        }
    }
}

fn fixed<T: ArrowNativeType>(d: &ArrayData, off: usize, len: usize) -> VResult {
    nbuf(d, 1)?;
    nchild(d, 0)?;
    typed::<T>(&d.buffers()[0], off, len, "values").map(|_| ())
}

fn bytes_like<O: ArrowNativeType + Into<i64>>(
    d: &ArrayData,
    off: usize,
    len: usize,
    utf8: bool,
) -> VResult {
    nbuf(d, 2)?;
    nchild(d, 0)?;
    let data = &d.buffers()[1];
    if len == 0 && d.buffers()[0].is_empty() {
        return Ok(());
    }
    let offs = typed::<O>(
        &d.buffers()[0],
        off,
        len.checked_add(1).ok_or("len+1 overflows")?,
        "offsets",
    )?;
    let mut prev: i64 = offs[0].into();
    if prev < 0 {
        return err(format!("first offset {prev} is negative"));
    }
    for (i, o) in offs.iter().enumerate().skip(1) {
        let o: i64 = (*o).into();
        if o < prev {
            return err(format!("offset {o} at {i} is less than its predecessor {prev}"));
        }
        prev = o;
    }
    if prev as u64 > data.len() as u64 {
        return err(format!(
            "last offset {prev} exceeds values buffer of {} bytes",
            data.len()
        ));
    }
    if utf8 {
        let bytes = data.as_slice();
        for i in 0..len {
            let s: i64 = offs[i].into();
            let e: i64 = offs[i + 1].into();
            // a value extent is interpreted by `value(i)` for valid slots; the
            // spec leaves bytes under nulls undefined
            if valid_at(d, i) && std::str::from_utf8(&bytes[s as usize..e as usize]).is_err() {
                return err(format!("value {i} is not valid UTF-8"));
            }
        }
    }
    Ok(())
}

fn views(d: &ArrayData, off: usize, len: usize, utf8: bool) -> VResult {
    nchild(d, 0)?;
    if d.buffers().is_empty() {
        return err("view array without a views buffer".into());
    }
    let vs = typed::<u128>(&d.buffers()[0], off, len, "views")?;
    let bufs = &d.buffers()[1..];
    for (i, v) in vs.iter().enumerate() {
        if !valid_at(d, i) {
            continue;
        }
        let raw = v.to_le_bytes();
        let l = u32::from_le_bytes(raw[0..4].try_into().unwrap()) as usize;
        if l > i32::MAX as usize {
            return err(format!("view {i} has length {l} > i32::MAX"));
        }
        let bytes: &[u8] = if l <= 12 {
            if raw[4 + l..].iter().any(|b| *b != 0) {
                return err(format!("inline view {i} of length {l} has non-zero padding"));
            }
            &raw[4..4 + l]
        } else {
            let bi = u32::from_le_bytes(raw[8..12].try_into().unwrap()) as usize;
            let o = u32::from_le_bytes(raw[12..16].try_into().unwrap()) as usize;
            let Some(b) = bufs.get(bi) else {
                return err(format!(
                    "view {i} references buffer {bi}, only {} data buffers",
                    bufs.len()
                ));
            };
            if o + l > b.len() {
                return err(format!(
                    "view {i} references bytes {o}..{} of buffer {bi} with {} bytes",
                    o + l,
                    b.len()
                ));
            }
            let s = &b.as_slice()[o..o + l];
            if s[..4] != raw[4..8] {
                return err(format!("view {i} prefix does not match its data"));
            }
            s
        };
        if utf8 && std::str::from_utf8(bytes).is_err() {
            return err(format!("view {i} is not valid UTF-8"));
        }
    }
    Ok(())
}

fn list_like<O: ArrowNativeType + Into<i64>>(
    d: &ArrayData,
    off: usize,
    len: usize,
    f: &Field,
) -> VResult {
    nbuf(d, 1)?;
    nchild(d, 1)?;
    child_type(d, 0, f)?;
    let c = &d.child_data()[0];
    if !(len == 0 && d.buffers()[0].is_empty()) {
        let offs = typed::<O>(
            &d.buffers()[0],
            off,
            len.checked_add(1).ok_or("len+1 overflows")?,
            "offsets",
        )?;
        let first: i64 = offs[0].into();
        let mut prev = first;
        if prev < 0 {
            return err(format!("first offset {prev} is negative"));
        }
        for (i, o) in offs.iter().enumerate().skip(1) {
            let o: i64 = (*o).into();
            if o < prev {
                return err(format!("offset {o} at {i} is less than its predecessor {prev}"));
            }
            prev = o;
        }
        if prev as u64 > c.len() as u64 {
            return err(format!(
                "last offset {prev} exceeds child length {}",
                c.len()
            ));
        }
        // non-nullable child: no nulls inside extents of valid lists (unless a farther
        // ancestor has nulls, which may excuse them)
        if !f.is_nullable() && ANC_NULLS.with(|c| c.get()) <= (d.null_count() > 0) as u32 {
            if let Some(n) = c.nulls() {
                for i in 0..len {
                    if !valid_at(d, i) {
                        continue;
                    }
                    let s: i64 = offs[i].into();
                    let e: i64 = offs[i + 1].into();
                    for j in s..e {
                        if n.is_null(j as usize) {
                            return err(format!(
                                "non-nullable list child has a null at {j} (list {i})"
                            ));
                        }
                    }
                }
            }
        }
    }
    spec_validate(c)
}

fn list_view<O: ArrowNativeType + Into<i64>>(
    d: &ArrayData,
    off: usize,
    len: usize,
    f: &Field,
) -> VResult {
    nbuf(d, 2)?;
    nchild(d, 1)?;
    child_type(d, 0, f)?;
    let c = &d.child_data()[0];
    let offs = typed::<O>(&d.buffers()[0], off, len, "list-view offsets")?;
    let sizes = typed::<O>(&d.buffers()[1], off, len, "list-view sizes")?;
    for i in 0..len {
        let o: i64 = offs[i].into();
        let s: i64 = sizes[i].into();
        if o < 0 || s < 0 {
            return err(format!("list-view {i} has negative offset {o} or size {s}"));
        }
        let e = o.checked_add(s).ok_or("list-view offset+size overflows")?;
        if e as u64 > c.len() as u64 {
            return err(format!(
                "list-view {i} spans {o}..{e}, child has {} values",
                c.len()
            ));
        }
        if !f.is_nullable() && valid_at(d, i) && ANC_NULLS.with(|c| c.get()) <= (d.null_count() > 0) as u32 {
            if let Some(n) = c.nulls() {
                for j in o..e {
                    if n.is_null(j as usize) {
                        return err(format!(
                            "non-nullable list-view child has a null at {j} (list {i})"
                        ));
                    }
                }
            }
        }
    }
    spec_validate(c)
}

/// `spec_validate` ∧ arrow-rs' own `validate_full`.
pub fn check_data(d: &ArrayData) -> VResult {
    spec_validate(d)?;
    d.validate_full()
        .map_err(|e| format!("validate_full rejected: {e}"))
}

pub fn check_array(a: &dyn Array) -> VResult {
    let d = a.to_data();
    if d.len() != a.len() {
        return err(format!("to_data().len() {} != len() {}", d.len(), a.len()));
    }
    if d.data_type() != a.data_type() {
        return err(format!(
            "to_data().data_type() {} != data_type() {}",
            d.data_type(),
            a.data_type()
        ));
    }
    check_data(&d)
}

/// Column count/type/length vs schema, non-nullable fields without nulls.
pub fn check_batch(b: &RecordBatch) -> VResult {
    let s = b.schema();
    if s.fields().len() != b.num_columns() {
        return err(format!(
            "schema has {} fields, batch {} columns",
            s.fields().len(),
            b.num_columns()
        ));
    }
    for (i, (f, c)) in s.fields().iter().zip(b.columns()).enumerate() {
        if !f.data_type().equals_datatype(c.data_type()) {
            return err(format!(
                "column {i} has type {} but schema says {}",
                c.data_type(),
                f.data_type()
            ));
        }
        if c.len() != b.num_rows() {
            return err(format!(
                "column {i} has {} rows, batch {}",
                c.len(),
                b.num_rows()
            ));
        }
        if !f.is_nullable() && c.logical_null_count() > 0 && c.null_count() > 0 {
            return err(format!("non-nullable column {i} contains nulls"));
        }
        check_array(c.as_ref()).map_err(|e| format!("column {i}: {e}"))?;
    }
    Ok(())
}

/// Bounded accessor exercise: must complete without panic on a well-formed
/// array (the caller wraps it in the panic monitor; under ASan/Miri an
/// out-of-bounds access becomes a report).
pub fn exercise(a: &ArrayRef) -> VResult {
    let vals = crate::extract::extract(a.as_ref());
    if vals.len() != a.len() {
        return err("extract length mismatch".into());
    }
    let ln = a.logical_nulls();
    if let Some(n) = &ln {
        if n.len() != a.len() {
            return err(format!(
                "logical_nulls has {} bits, array {}",
                n.len(),
                a.len()
            ));
        }
    }
    let lnc = a.logical_null_count();
    let mask = crate::extract::logical_null_mask(&vals);
    let model_nulls = mask.iter().filter(|b| **b).count();
    if let Some(n) = &ln {
        for (i, m) in mask.iter().enumerate() {
            if n.is_null(i) != *m {
                return err(format!(
                    "logical_nulls bit {i} says null={} but accessors show {:?}",
                    n.is_null(i),
                    vals[i]
                ));
            }
        }
    }
    if lnc != model_nulls {
        return err(format!(
            "logical_null_count {lnc} but accessors show {model_nulls} null rows (logical_nulls is_some={})",
            ln.is_some()
        ));
    }
    let _ = a.get_array_memory_size();
    let _ = a.get_buffer_memory_size();
    if a.to_data() != a.to_data() {
        return err("to_data() not equal to itself".into());
    }
    let n = a.len();
    for (o, l) in [(0, n), (n / 2, n - n / 2), (n.min(1), n.saturating_sub(2).min(n - n.min(1)))] {
        let s = a.slice(o, l);
        let sv = crate::extract::extract(s.as_ref());
        if sv[..] != vals[o..o + l] {
            return err(format!("slice({o},{l}) does not show rows {o}..{}", o + l));
        }
        check_array(s.as_ref()).map_err(|e| format!("slice({o},{l}): {e}"))?;
    }
    // round trip through ArrayData
    let back = make_array(a.to_data());
    if crate::extract::extract(back.as_ref()) != vals {
        return err("make_array(to_data()) changed the logical content".into());
    }
    Ok(())
}

/// Full oracle used by C01/C08/C09 for any returned array.
pub fn check_and_exercise(a: &ArrayRef) -> VResult {
    check_array(a.as_ref())?;
    exercise(a)
}
