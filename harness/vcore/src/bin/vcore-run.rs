fn main() {
    std::process::exit(vcore::cli_main(None));
}
