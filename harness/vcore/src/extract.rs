//! Read an array back into the logical model through the public accessors.

use crate::val::Val;
use arrow_array::cast::AsArray;
use arrow_array::types::*;
use arrow_array::*;
use arrow_schema::{DataType, IntervalUnit, TimeUnit};

macro_rules! prim_int {
    ($a:expr, $t:ty) => {{
        let a = $a.as_primitive::<$t>();
        (0..a.len())
            .map(|i| {
                if a.is_null(i) {
                    Val::Null
                } else {
                    Val::Int(a.value(i) as i128)
                }
            })
            .collect()
    }};
}

/// Logical values of `a` (dictionary / run-end arrays as the values they denote).
pub fn extract(a: &dyn Array) -> Vec<Val> {
    use DataType::*;
    match a.data_type() {
        Null => vec![Val::Null; a.len()],
        Boolean => {
            let b = a.as_boolean();
            (0..b.len())
                .map(|i| {
                    if b.is_null(i) {
                        Val::Null
                    } else {
                        Val::Bool(b.value(i))
                    }
                })
                .collect()
        }
        Int8 => prim_int!(a, Int8Type),
        Int16 => prim_int!(a, Int16Type),
        Int32 => prim_int!(a, Int32Type),
        Int64 => prim_int!(a, Int64Type),
        UInt8 => prim_int!(a, UInt8Type),
        UInt16 => prim_int!(a, UInt16Type),
        UInt32 => prim_int!(a, UInt32Type),
        UInt64 => prim_int!(a, UInt64Type),
        Float16 => {
            let p = a.as_primitive::<Float16Type>();
            (0..p.len())
                .map(|i| {
                    if p.is_null(i) {
                        Val::Null
                    } else {
                        Val::F16(p.value(i).to_bits())
                    }
                })
                .collect()
        }
        Float32 => {
            let p = a.as_primitive::<Float32Type>();
            (0..p.len())
                .map(|i| {
                    if p.is_null(i) {
                        Val::Null
                    } else {
                        Val::F32(p.value(i).to_bits())
                    }
                })
                .collect()
        }
        Float64 => {
            let p = a.as_primitive::<Float64Type>();
            (0..p.len())
                .map(|i| {
                    if p.is_null(i) {
                        Val::Null
                    } else {
                        Val::F64(p.value(i).to_bits())
                    }
                })
                .collect()
        }
        Date32 => prim_int!(a, Date32Type),
        Date64 => prim_int!(a, Date64Type),
        Time32(TimeUnit::Second) => prim_int!(a, Time32SecondType),
        Time32(TimeUnit::Millisecond) => prim_int!(a, Time32MillisecondType),
        Time64(TimeUnit::Microsecond) => prim_int!(a, Time64MicrosecondType),
        Time64(TimeUnit::Nanosecond) => prim_int!(a, Time64NanosecondType),
        Time32(_) | Time64(_) => panic!("model: invalid time type"),
        Timestamp(TimeUnit::Second, _) => prim_int!(a, TimestampSecondType),
        Timestamp(TimeUnit::Millisecond, _) => prim_int!(a, TimestampMillisecondType),
        Timestamp(TimeUnit::Microsecond, _) => prim_int!(a, TimestampMicrosecondType),
        Timestamp(TimeUnit::Nanosecond, _) => prim_int!(a, TimestampNanosecondType),
        Duration(TimeUnit::Second) => prim_int!(a, DurationSecondType),
        Duration(TimeUnit::Millisecond) => prim_int!(a, DurationMillisecondType),
        Duration(TimeUnit::Microsecond) => prim_int!(a, DurationMicrosecondType),
        Duration(TimeUnit::Nanosecond) => prim_int!(a, DurationNanosecondType),
        Interval(IntervalUnit::YearMonth) => prim_int!(a, IntervalYearMonthType),
        Interval(IntervalUnit::DayTime) => {
            let p = a.as_primitive::<IntervalDayTimeType>();
            (0..p.len())
                .map(|i| {
                    if p.is_null(i) {
                        Val::Null
                    } else {
                        let v = p.value(i);
                        Val::IntervalDT(v.days, v.milliseconds)
                    }
                })
                .collect()
        }
        Interval(IntervalUnit::MonthDayNano) => {
            let p = a.as_primitive::<IntervalMonthDayNanoType>();
            (0..p.len())
                .map(|i| {
                    if p.is_null(i) {
                        Val::Null
                    } else {
                        let v = p.value(i);
                        Val::IntervalMDN(v.months, v.days, v.nanoseconds)
                    }
                })
                .collect()
        }
        Decimal32(_, _) => prim_int!(a, Decimal32Type),
        Decimal64(_, _) => prim_int!(a, Decimal64Type),
        Decimal128(_, _) => prim_int!(a, Decimal128Type),
        Decimal256(_, _) => {
            let p = a.as_primitive::<Decimal256Type>();
            (0..p.len())
                .map(|i| {
                    if p.is_null(i) {
                        Val::Null
                    } else {
                        Val::Big(p.value(i))
                    }
                })
                .collect()
        }
        Utf8 => {
            let s = a.as_string::<i32>();
            (0..s.len())
                .map(|i| {
                    if s.is_null(i) {
                        Val::Null
                    } else {
                        Val::Str(s.value(i).to_string())
                    }
                })
                .collect()
        }
        LargeUtf8 => {
            let s = a.as_string::<i64>();
            (0..s.len())
                .map(|i| {
                    if s.is_null(i) {
                        Val::Null
                    } else {
                        Val::Str(s.value(i).to_string())
                    }
                })
                .collect()
        }
        Utf8View => {
            let s = a.as_string_view();
            (0..s.len())
                .map(|i| {
                    if s.is_null(i) {
                        Val::Null
                    } else {
                        Val::Str(s.value(i).to_string())
                    }
                })
                .collect()
        }
        Binary => {
            let s = a.as_binary::<i32>();
            (0..s.len())
                .map(|i| {
                    if s.is_null(i) {
                        Val::Null
                    } else {
                        Val::Bytes(s.value(i).to_vec())
                    }
                })
                .collect()
        }
        LargeBinary => {
            let s = a.as_binary::<i64>();
            (0..s.len())
                .map(|i| {
                    if s.is_null(i) {
                        Val::Null
                    } else {
                        Val::Bytes(s.value(i).to_vec())
                    }
                })
                .collect()
        }
        BinaryView => {
            let s = a.as_binary_view();
            (0..s.len())
                .map(|i| {
                    if s.is_null(i) {
                        Val::Null
                    } else {
                        Val::Bytes(s.value(i).to_vec())
                    }
                })
                .collect()
        }
        FixedSizeBinary(_) => {
            let s = a.as_fixed_size_binary();
            (0..s.len())
                .map(|i| {
                    if s.is_null(i) {
                        Val::Null
                    } else {
                        Val::Bytes(s.value(i).to_vec())
                    }
                })
                .collect()
        }
        List(_) => {
            let l = a.as_list::<i32>();
            (0..l.len())
                .map(|i| {
                    if l.is_null(i) {
                        Val::Null
                    } else {
                        Val::List(extract(l.value(i).as_ref()))
                    }
                })
                .collect()
        }
        LargeList(_) => {
            let l = a.as_list::<i64>();
            (0..l.len())
                .map(|i| {
                    if l.is_null(i) {
                        Val::Null
                    } else {
                        Val::List(extract(l.value(i).as_ref()))
                    }
                })
                .collect()
        }
        ListView(_) => {
            let l = a.as_list_view::<i32>();
            (0..l.len())
                .map(|i| {
                    if l.is_null(i) {
                        Val::Null
                    } else {
                        Val::List(extract(l.value(i).as_ref()))
                    }
                })
                .collect()
        }
        LargeListView(_) => {
            let l = a.as_list_view::<i64>();
            (0..l.len())
                .map(|i| {
                    if l.is_null(i) {
                        Val::Null
                    } else {
                        Val::List(extract(l.value(i).as_ref()))
                    }
                })
                .collect()
        }
        FixedSizeList(_, _) => {
            let l = a.as_fixed_size_list();
            (0..l.len())
                .map(|i| {
                    if l.is_null(i) {
                        Val::Null
                    } else {
                        Val::List(extract(l.value(i).as_ref()))
                    }
                })
                .collect()
        }
        Struct(_) => {
            let s = a.as_struct();
            let cols: Vec<Vec<Val>> = s.columns().iter().map(|c| extract(c.as_ref())).collect();
            (0..s.len())
                .map(|i| {
                    if s.is_null(i) {
                        Val::Null
                    } else {
                        Val::Struct(cols.iter().map(|c| c[i].clone()).collect())
                    }
                })
                .collect()
        }
        Map(_, _) => {
            let m = a.as_map();
            (0..m.len())
                .map(|i| {
                    if m.is_null(i) {
                        Val::Null
                    } else {
                        let e = m.value(i);
                        Val::List(extract(&e))
                    }
                })
                .collect()
        }
        Union(_, _) => {
            let u = a.as_union();
            (0..u.len())
                .map(|i| {
                    let t = u.type_id(i);
                    let v = u.value(i);
                    let x = extract(v.as_ref());
                    assert_eq!(x.len(), 1, "union value(i) must have one row");
                    Val::Union(t, Box::new(x.into_iter().next().unwrap()))
                })
                .collect()
        }
        Dictionary(_, _) => {
            let d = a.as_any_dictionary();
            if a.is_empty() {
                return vec![];
            }
            if d.values().is_empty() {
                assert_eq!(d.keys().null_count(), a.len(), "valid key with empty dictionary");
                return vec![Val::Null; a.len()];
            }
            let vals = extract(d.values().as_ref());
            let keys = d.keys();
            let n = d.values().len();
            let norm = d.normalized_keys();
            (0..a.len())
                .map(|i| {
                    if keys.is_null(i) {
                        Val::Null
                    } else {
                        let k = norm[i];
                        assert!(k < n, "dictionary key out of range in a valid slot");
                        vals[k].clone()
                    }
                })
                .collect()
        }
        RunEndEncoded(re, _) => match re.data_type() {
            Int16 => extract_ree::<Int16Type>(a),
            Int32 => extract_ree::<Int32Type>(a),
            Int64 => extract_ree::<Int64Type>(a),
            _ => panic!("model: bad run end type"),
        },
    }
}

fn extract_ree<R: RunEndIndexType>(a: &dyn Array) -> Vec<Val> {
    let r = a.as_run::<R>();
    let vals = extract(r.values().as_ref());
    (0..r.len())
        .map(|i| vals[r.get_physical_index(i)].clone())
        .collect()
}

/// The data type with dictionary / run-end encodings removed (recursively) and
/// offset widths / view / list-view distinctions kept.
pub fn flatten_type(dt: &DataType) -> DataType {
    use DataType::*;
    use arrow_schema::Field;
    use std::sync::Arc;
    let ff = |f: &arrow_schema::FieldRef| {
        Arc::new(Field::new(
            f.name(),
            flatten_type(f.data_type()),
            f.is_nullable(),
        ))
    };
    match dt {
        Dictionary(_, v) => flatten_type(v),
        RunEndEncoded(_, v) => flatten_type(v.data_type()),
        List(f) => List(ff(f)),
        LargeList(f) => LargeList(ff(f)),
        ListView(f) => ListView(ff(f)),
        LargeListView(f) => LargeListView(ff(f)),
        FixedSizeList(f, n) => FixedSizeList(ff(f), *n),
        Struct(fs) => Struct(fs.iter().map(ff).collect()),
        Map(f, o) => Map(ff(f), *o),
        other => other.clone(),
    }
}

/// Logical nulls as the model sees them (a null dictionary value / run value /
/// union child is a null row).
pub fn logical_null_mask(vals: &[Val]) -> Vec<bool> {
    vals.iter().map(is_logical_null).collect()
}

pub fn is_logical_null(v: &Val) -> bool {
    match v {
        Val::Null => true,
        Val::Union(_, x) => is_logical_null(x),
        _ => false,
    }
}
