//! Seeded generators for data types and logical values, biased to the
//! boundaries the code special-cases.

use crate::rng::Rng;
use crate::val::Val;
use arrow_buffer::i256;
use arrow_schema::{DataType, Field, Fields, IntervalUnit, TimeUnit, UnionFields, UnionMode};
use std::sync::Arc;

/// Which parts of the type grid a workload may draw from.
#[derive(Clone, Debug)]
pub struct TypeCfg {
    pub max_depth: u32,
    pub null_type: bool,
    pub f16: bool,
    pub decimal: bool,
    pub decimal_small: bool,
    pub decimal256: bool,
    pub neg_scale: bool,
    pub temporal: bool,
    pub tz: bool,
    pub interval: bool,
    pub duration: bool,
    pub binary: bool,
    pub large: bool,
    pub view: bool,
    pub fsb: bool,
    pub fsb0: bool,
    pub dict: bool,
    pub ree: bool,
    pub list: bool,
    pub list_view: bool,
    pub fsl: bool,
    pub strukt: bool,
    pub map: bool,
    pub union: bool,
    /// allow non-nullable nested fields
    pub non_nullable: bool,
    /// allow Time/Date64 values outside the documented domain
    pub wild_temporal: bool,
    /// allow decimal values beyond the declared precision
    pub wild_decimal: bool,
    /// allow empty struct (no fields)
    pub empty_struct: bool,
}

impl TypeCfg {
    pub fn all() -> Self {
        TypeCfg {
            max_depth: 3,
            null_type: true,
            f16: true,
            decimal: true,
            decimal_small: true,
            decimal256: true,
            neg_scale: true,
            temporal: true,
            tz: true,
            interval: true,
            duration: true,
            binary: true,
            large: true,
            view: true,
            fsb: true,
            fsb0: true,
            dict: true,
            ree: true,
            list: true,
            list_view: true,
            fsl: true,
            strukt: true,
            map: true,
            union: true,
            non_nullable: true,
            wild_temporal: false,
            wild_decimal: false,
            empty_struct: false,
        }
    }
    pub fn flat() -> Self {
        let mut c = Self::all();
        c.max_depth = 0;
        c
    }
    pub fn depth(mut self, d: u32) -> Self {
        self.max_depth = d;
        self
    }
}

pub const TIME_UNITS: [TimeUnit; 4] = [
    TimeUnit::Second,
    TimeUnit::Millisecond,
    TimeUnit::Microsecond,
    TimeUnit::Nanosecond,
];

pub const TZS: [&str; 5] = ["+00:00", "+05:30", "-08:00", "UTC", "+14:00"];

pub fn gen_primitive_type(rng: &mut Rng, cfg: &TypeCfg) -> DataType {
    use DataType::*;
    loop {
        let k = rng.below(30);
        let t = match k {
            0 => Boolean,
            1 => Int8,
            2 => Int16,
            3 => Int32,
            4 => Int64,
            5 => UInt8,
            6 => UInt16,
            7 => UInt32,
            8 => UInt64,
            9 if cfg.f16 => Float16,
            10 => Float32,
            11 => Float64,
            12 if cfg.temporal => Date32,
            13 if cfg.temporal => Date64,
            14 if cfg.temporal => {
                if rng.bool() {
                    Time32(TimeUnit::Second)
                } else {
                    Time32(TimeUnit::Millisecond)
                }
            }
            15 if cfg.temporal => {
                if rng.bool() {
                    Time64(TimeUnit::Microsecond)
                } else {
                    Time64(TimeUnit::Nanosecond)
                }
            }
            16 if cfg.temporal => {
                let tz = if cfg.tz && rng.chance(1, 3) {
                    Some(Arc::from(*rng.pick(&TZS)))
                } else {
                    None
                };
                Timestamp(*rng.pick(&TIME_UNITS), tz)
            }
            17 if cfg.duration => Duration(*rng.pick(&TIME_UNITS)),
            18 if cfg.interval => Interval(*rng.pick(&[
                IntervalUnit::YearMonth,
                IntervalUnit::DayTime,
                IntervalUnit::MonthDayNano,
            ])),
            19 | 20 if cfg.decimal => gen_decimal_type(rng, cfg),
            21 => Utf8,
            22 if cfg.binary => Binary,
            23 if cfg.large => LargeUtf8,
            24 if cfg.large && cfg.binary => LargeBinary,
            25 if cfg.view => Utf8View,
            26 if cfg.view && cfg.binary => BinaryView,
            27 if cfg.fsb => {
                let w = if cfg.fsb0 && rng.chance(1, 10) {
                    0
                } else {
                    *rng.pick(&[1, 2, 3, 4, 7, 8, 12, 16, 17])
                };
                FixedSizeBinary(w)
            }
            28 if cfg.null_type => Null,
            29 => Int32,
            _ => continue,
        };
        return t;
    }
}

pub fn gen_decimal_type(rng: &mut Rng, cfg: &TypeCfg) -> DataType {
    let which = rng.below(4);
    let (maxp, mk): (u8, fn(u8, i8) -> DataType) = match which {
        0 if cfg.decimal_small => (9, DataType::Decimal32),
        1 if cfg.decimal_small => (18, DataType::Decimal64),
        3 if cfg.decimal256 => (76, DataType::Decimal256),
        _ => (38, DataType::Decimal128),
    };
    let p = if rng.chance(1, 4) {
        maxp
    } else {
        1 + rng.below(maxp as usize) as u8
    };
    let s: i8 = if cfg.neg_scale && rng.chance(1, 6) {
        -(rng.below(5) as i8 + 1)
    } else {
        rng.below(p as usize + 1) as i8
    };
    mk(p, s)
}

fn field(rng: &mut Rng, name: &str, dt: DataType, cfg: &TypeCfg) -> Field {
    // union / run-end / null typed children have to be nullable to carry nulls
    let nullable = !(cfg.non_nullable && rng.chance(1, 6))
        || matches!(
            dt,
            DataType::Null
                | DataType::Union(_, _)
                | DataType::Dictionary(_, _)
                | DataType::RunEndEncoded(_, _)
        );
    Field::new(name, dt, nullable)
}

pub fn gen_type(rng: &mut Rng, cfg: &TypeCfg) -> DataType {
    gen_type_d(rng, cfg, cfg.max_depth)
}

pub fn gen_type_d(rng: &mut Rng, cfg: &TypeCfg, depth: u32) -> DataType {
    use DataType::*;
    if depth == 0 || rng.chance(2, 5) {
        // flat, maybe encoded
        let k = rng.below(10);
        if k == 0 && cfg.dict {
            // 8-bit keys only for top-level columns (bounded distinct count)
            let key = if depth < cfg.max_depth {
                rng.pick(&[Int16, Int32, Int64, UInt16, UInt32, UInt64]).clone()
            } else {
                rng.pick(&[Int8, Int16, Int32, Int64, UInt8, UInt16, UInt32, UInt64])
                    .clone()
            };
            let mut c2 = cfg.clone();
            c2.null_type = false;
            let v = gen_primitive_type(rng, &c2);
            return Dictionary(Box::new(key), Box::new(v));
        }
        if k == 1 && cfg.ree {
            let re = rng.pick(&[Int16, Int32, Int64]).clone();
            let mut c2 = cfg.clone();
            c2.null_type = false;
            let v = gen_primitive_type(rng, &c2);
            return RunEndEncoded(
                Arc::new(Field::new("run_ends", re, false)),
                Arc::new(Field::new("values", v, true)),
            );
        }
        return gen_primitive_type(rng, cfg);
    }
    loop {
        let k = rng.below(11);
        match k {
            0 if cfg.list => {
                let c = gen_type_d(rng, cfg, depth - 1);
                return List(Arc::new(field(rng, "item", c, cfg)));
            }
            1 if cfg.list && cfg.large => {
                let c = gen_type_d(rng, cfg, depth - 1);
                return LargeList(Arc::new(field(rng, "item", c, cfg)));
            }
            2 if cfg.list_view => {
                let c = gen_type_d(rng, cfg, depth - 1);
                return ListView(Arc::new(field(rng, "item", c, cfg)));
            }
            3 if cfg.list_view && cfg.large => {
                let c = gen_type_d(rng, cfg, depth - 1);
                return LargeListView(Arc::new(field(rng, "item", c, cfg)));
            }
            4 if cfg.fsl => {
                let c = gen_type_d(rng, cfg, depth - 1);
                let n = *rng.pick(&[0, 1, 2, 3, 5]);
                return FixedSizeList(Arc::new(field(rng, "item", c, cfg)), n);
            }
            5 | 6 if cfg.strukt => {
                let n = if cfg.empty_struct && rng.chance(1, 12) {
                    0
                } else {
                    1 + rng.below(3)
                };
                let fs: Vec<Field> = (0..n)
                    .map(|i| {
                        let c = gen_type_d(rng, cfg, depth - 1);
                        field(rng, &format!("f{i}"), c, cfg)
                    })
                    .collect();
                return Struct(Fields::from(fs));
            }
            7 if cfg.map => {
                // keys: non-null, hashable-ish flat type
                let mut kc = TypeCfg::flat();
                kc.null_type = false;
                kc.dict = false;
                kc.ree = false;
                kc.f16 = cfg.f16;
                kc.view = cfg.view;
                kc.large = cfg.large;
                kc.decimal_small = cfg.decimal_small;
                kc.decimal256 = cfg.decimal256;
                kc.interval = cfg.interval;
                kc.fsb0 = cfg.fsb0;
                let kt = gen_primitive_type(rng, &kc);
                let vt = gen_type_d(rng, cfg, depth - 1);
                let entries = Struct(Fields::from(vec![
                    Field::new("key", kt, false),
                    Field::new("value", vt, true),
                ]));
                return Map(Arc::new(Field::new("entries", entries, false)), false);
            }
            8 if cfg.union => {
                let n = 1 + rng.below(3);
                let mut ids: Vec<i8> = Vec::new();
                while ids.len() < n {
                    let id = if rng.chance(1, 3) {
                        rng.below(128) as i8
                    } else {
                        ids.len() as i8
                    };
                    if !ids.contains(&id) {
                        ids.push(id);
                    }
                }
                if rng.bool() {
                    ids.sort();
                }
                let fs: Vec<Field> = (0..n)
                    .map(|i| {
                        let c = gen_type_d(rng, cfg, depth - 1);
                        Field::new(format!("u{i}"), c, true)
                    })
                    .collect();
                let mode = if rng.bool() {
                    UnionMode::Dense
                } else {
                    UnionMode::Sparse
                };
                return Union(UnionFields::try_new(ids, fs).unwrap(), mode);
            }
            9 | 10 => return gen_type_d(rng, cfg, 0),
            _ => continue,
        }
    }
}

// ---------------------------------------------------------------- values

pub fn pow10_i128(p: u32) -> i128 {
    10i128.pow(p)
}

pub fn pow10_i256(p: u32) -> i256 {
    let mut r = i256::ONE;
    let ten = i256::from_i128(10);
    for _ in 0..p {
        r = r.wrapping_mul(ten);
    }
    r
}

/// integer in [lo, hi] biased to the ends, zero, ±1, powers of two
pub fn gen_int(rng: &mut Rng, lo: i128, hi: i128) -> i128 {
    let clamp = |v: i128| v.clamp(lo, hi);
    match rng.below(12) {
        0 => lo,
        1 => hi,
        2 => clamp(0),
        3 => clamp(1),
        4 => clamp(-1),
        5 => clamp(lo.saturating_add(1 + rng.below(3) as i128)),
        6 => clamp(hi.saturating_sub(1 + rng.below(3) as i128)),
        7 => {
            let k = rng.below(127) as u32;
            let v = 1i128 << k;
            let v = v + rng.range(-1, 1) as i128;
            clamp(if rng.bool() { v } else { -v })
        }
        8 | 9 => clamp(rng.range(-130, 130) as i128),
        _ => {
            let span = (hi as i128).wrapping_sub(lo) as u128;
            if span == u128::MAX {
                rng.u128() as i128
            } else {
                lo.wrapping_add((rng.u128() % (span + 1)) as i128)
            }
        }
    }
}

pub fn gen_f64_bits(rng: &mut Rng) -> u64 {
    const SPECIAL: [u64; 16] = [
        0x0000_0000_0000_0000, // +0
        0x8000_0000_0000_0000, // -0
        0x7FF0_0000_0000_0000, // +inf
        0xFFF0_0000_0000_0000, // -inf
        0x7FF8_0000_0000_0000, // qNaN
        0xFFF8_0000_0000_0000, // -qNaN
        0x7FF8_0000_0000_0001, // NaN payload
        0x7FF0_0000_0000_0001, // sNaN
        0x0000_0000_0000_0001, // min subnormal
        0x000F_FFFF_FFFF_FFFF, // max subnormal
        0x0010_0000_0000_0000, // min normal
        0x7FEF_FFFF_FFFF_FFFF, // max
        0xFFEF_FFFF_FFFF_FFFF, // -max
        0x3FF0_0000_0000_0000, // 1
        0xBFF0_0000_0000_0000, // -1
        0x4340_0000_0000_0000, // 2^53
    ];
    match rng.below(6) {
        0 | 1 => *rng.pick(&SPECIAL),
        2 => (rng.range(-1000, 1000) as f64).to_bits(),
        3 => (rng.range(-1000, 1000) as f64 / 8.0).to_bits(),
        4 => (rng.f64_unit() * 1e6 - 5e5).to_bits(),
        _ => rng.u64(),
    }
}

pub fn gen_f32_bits(rng: &mut Rng) -> u32 {
    const SPECIAL: [u32; 14] = [
        0x0000_0000,
        0x8000_0000,
        0x7F80_0000,
        0xFF80_0000,
        0x7FC0_0000,
        0xFFC0_0000,
        0x7FC0_0001,
        0x7F80_0001,
        0x0000_0001,
        0x007F_FFFF,
        0x0080_0000,
        0x7F7F_FFFF,
        0xFF7F_FFFF,
        0x3F80_0000,
    ];
    match rng.below(6) {
        0 | 1 => *rng.pick(&SPECIAL),
        2 => (rng.range(-1000, 1000) as f32).to_bits(),
        3 => (rng.range(-1000, 1000) as f32 / 8.0).to_bits(),
        4 => ((rng.f64_unit() * 1e6 - 5e5) as f32).to_bits(),
        _ => rng.u32(),
    }
}

pub fn gen_f16_bits(rng: &mut Rng) -> u16 {
    const SPECIAL: [u16; 12] = [
        0x0000, 0x8000, 0x7C00, 0xFC00, 0x7E00, 0xFE00, 0x7E01, 0x7C01, 0x0001, 0x03FF, 0x0400,
        0x7BFF,
    ];
    match rng.below(4) {
        0 | 1 => *rng.pick(&SPECIAL),
        2 => half::f16::from_f32(rng.range(-100, 100) as f32).to_bits(),
        _ => rng.u64() as u16,
    }
}

pub const STR_ALPHABET: [&str; 40] = [
    "a", "b", "A", "B", "z", "Z", "0", "9", " ", "\t", "\n", "\r", "\"", "'", ",", ";", "|", "\\",
    "%", "_", ".", "*", "(", "[", "\0", "\u{7f}", "é", "É", "ß", "ǅ", "İ", "ı", "\u{301}", "€",
    "中", "\u{FFFF}", "😀", "\u{10FFFF}", "\u{1}", "/",
];

pub fn gen_string(rng: &mut Rng) -> String {
    const LENS: [usize; 16] = [0, 0, 1, 1, 2, 3, 4, 8, 11, 12, 13, 14, 31, 32, 33, 64];
    let n = if rng.chance(1, 12) {
        rng.below(200)
    } else {
        *rng.pick(&LENS)
    };
    let mode = rng.below(4);
    let mut s = String::new();
    for _ in 0..n {
        match mode {
            0 => s.push((b'a' + rng.below(4) as u8) as char),
            1 => s.push_str(*rng.pick(&STR_ALPHABET[..26])),
            _ => s.push_str(*rng.pick(&STR_ALPHABET[..])),
        }
    }
    s
}

pub fn gen_bytes(rng: &mut Rng) -> Vec<u8> {
    const LENS: [usize; 16] = [0, 0, 1, 1, 2, 3, 4, 7, 8, 9, 12, 13, 31, 32, 33, 65];
    let n = if rng.chance(1, 12) {
        rng.below(200)
    } else {
        *rng.pick(&LENS)
    };
    match rng.below(4) {
        0 => (0..n).map(|_| *rng.pick(&[0u8, 0xFF, 1, 0xFE])).collect(),
        1 => gen_string(rng).into_bytes(),
        _ => rng.bytes(n),
    }
}

pub fn decimal_bound(p: u8) -> i128 {
    pow10_i128(p as u32) - 1
}

/// Generate one non-null value of the given type.
pub fn gen_value(rng: &mut Rng, dt: &DataType, cfg: &TypeCfg) -> Val {
    use DataType::*;
    match dt {
        Null => Val::Null,
        Boolean => Val::Bool(rng.bool()),
        Int8 => Val::Int(gen_int(rng, i8::MIN as i128, i8::MAX as i128)),
        Int16 => Val::Int(gen_int(rng, i16::MIN as i128, i16::MAX as i128)),
        Int32 => Val::Int(gen_int(rng, i32::MIN as i128, i32::MAX as i128)),
        Int64 => Val::Int(gen_int(rng, i64::MIN as i128, i64::MAX as i128)),
        UInt8 => Val::Int(gen_int(rng, 0, u8::MAX as i128)),
        UInt16 => Val::Int(gen_int(rng, 0, u16::MAX as i128)),
        UInt32 => Val::Int(gen_int(rng, 0, u32::MAX as i128)),
        UInt64 => Val::Int(gen_int(rng, 0, u64::MAX as i128)),
        Float16 => Val::F16(gen_f16_bits(rng)),
        Float32 => Val::F32(gen_f32_bits(rng)),
        Float64 => Val::F64(gen_f64_bits(rng)),
        Date32 => {
            if rng.chance(3, 4) {
                // years 0001..9999
                Val::Int(gen_int(rng, -719_162, 2_932_896))
            } else {
                Val::Int(gen_int(rng, i32::MIN as i128, i32::MAX as i128))
            }
        }
        Date64 => {
            if cfg.wild_temporal && rng.chance(1, 4) {
                Val::Int(gen_int(rng, i64::MIN as i128, i64::MAX as i128))
            } else {
                Val::Int(gen_int(rng, -719_162, 2_932_896) * 86_400_000)
            }
        }
        Time32(u) | Time64(u) => {
            let per_day: i128 = match u {
                TimeUnit::Second => 86_400,
                TimeUnit::Millisecond => 86_400_000,
                TimeUnit::Microsecond => 86_400_000_000,
                TimeUnit::Nanosecond => 86_400_000_000_000,
            };
            if cfg.wild_temporal && rng.chance(1, 4) {
                if matches!(dt, Time32(_)) {
                    Val::Int(gen_int(rng, i32::MIN as i128, i32::MAX as i128))
                } else {
                    Val::Int(gen_int(rng, i64::MIN as i128, i64::MAX as i128))
                }
            } else {
                Val::Int(gen_int(rng, 0, per_day - 1))
            }
        }
        Timestamp(u, _) => {
            if rng.chance(2, 3) {
                // years 0001..9999 (seconds), scaled down into range
                let secs = gen_int(rng, -62_135_596_800, 253_402_300_799);
                let (mul, sub): (i128, i128) = match u {
                    TimeUnit::Second => (1, 1),
                    TimeUnit::Millisecond => (1_000, 1_000),
                    TimeUnit::Microsecond => (1_000_000, 1_000_000),
                    TimeUnit::Nanosecond => (1_000_000_000, 1_000_000_000),
                };
                let v = secs * mul + (rng.below(sub as usize) as i128);
                if v < i64::MIN as i128 || v > i64::MAX as i128 {
                    Val::Int(gen_int(rng, i64::MIN as i128, i64::MAX as i128))
                } else {
                    Val::Int(v)
                }
            } else {
                Val::Int(gen_int(rng, i64::MIN as i128, i64::MAX as i128))
            }
        }
        Duration(_) => Val::Int(gen_int(rng, i64::MIN as i128, i64::MAX as i128)),
        Interval(IntervalUnit::YearMonth) => {
            Val::Int(gen_int(rng, i32::MIN as i128, i32::MAX as i128))
        }
        Interval(IntervalUnit::DayTime) => Val::IntervalDT(
            gen_int(rng, i32::MIN as i128, i32::MAX as i128) as i32,
            gen_int(rng, i32::MIN as i128, i32::MAX as i128) as i32,
        ),
        Interval(IntervalUnit::MonthDayNano) => Val::IntervalMDN(
            gen_int(rng, i32::MIN as i128, i32::MAX as i128) as i32,
            gen_int(rng, i32::MIN as i128, i32::MAX as i128) as i32,
            gen_int(rng, i64::MIN as i128, i64::MAX as i128) as i64,
        ),
        Decimal32(p, _) => {
            if cfg.wild_decimal && rng.chance(1, 4) {
                Val::Int(gen_int(rng, i32::MIN as i128, i32::MAX as i128))
            } else {
                let b = decimal_bound(*p);
                Val::Int(gen_int(rng, -b, b))
            }
        }
        Decimal64(p, _) => {
            if cfg.wild_decimal && rng.chance(1, 4) {
                Val::Int(gen_int(rng, i64::MIN as i128, i64::MAX as i128))
            } else {
                let b = decimal_bound(*p);
                Val::Int(gen_int(rng, -b, b))
            }
        }
        Decimal128(p, _) => {
            if cfg.wild_decimal && rng.chance(1, 4) {
                Val::Int(gen_int(rng, i128::MIN, i128::MAX))
            } else {
                let b = decimal_bound(*p);
                Val::Int(gen_int(rng, -b, b))
            }
        }
        Decimal256(p, _) => {
            if cfg.wild_decimal && rng.chance(1, 4) {
                Val::Big(i256::from_parts(rng.u128(), rng.u128() as i128))
            } else if *p <= 38 {
                let b = decimal_bound(*p);
                Val::Big(i256::from_i128(gen_int(rng, -b, b)))
            } else {
                let b = pow10_i256(*p as u32).wrapping_sub(i256::ONE);
                let v = match rng.below(6) {
                    0 => b,
                    1 => b.wrapping_neg(),
                    2 => i256::from_i128(gen_int(rng, i128::MIN, i128::MAX)),
                    _ => {
                        let r = i256::from_parts(rng.u128(), (rng.u128() >> 1) as i128);
                        let r = r.wrapping_rem(b);
                        if rng.bool() { r } else { r.wrapping_neg() }
                    }
                };
                Val::Big(v)
            }
        }
        Utf8 | LargeUtf8 | Utf8View => Val::Str(gen_string(rng)),
        Binary | LargeBinary | BinaryView => Val::Bytes(gen_bytes(rng)),
        FixedSizeBinary(w) => {
            let w = *w as usize;
            let b = match rng.below(3) {
                0 => (0..w).map(|_| *rng.pick(&[0u8, 0xFF, 1, 0x80])).collect(),
                _ => rng.bytes(w),
            };
            Val::Bytes(b)
        }
        List(f) | LargeList(f) | ListView(f) | LargeListView(f) => {
            let n = *rng.pick(&[0usize, 0, 1, 1, 2, 3, 5, 9]);
            Val::List((0..n).map(|_| gen_field_val(rng, f, cfg)).collect())
        }
        FixedSizeList(f, n) => {
            Val::List((0..*n).map(|_| gen_field_val(rng, f, cfg)).collect())
        }
        Struct(fs) => Val::Struct(fs.iter().map(|f| gen_field_val(rng, f, cfg)).collect()),
        Map(entries, _) => {
            let Struct(kv) = entries.data_type() else {
                unreachable!()
            };
            let n = *rng.pick(&[0usize, 0, 1, 2, 3, 4]);
            Val::List(
                (0..n)
                    .map(|_| {
                        let k = gen_value(rng, kv[0].data_type(), cfg);
                        let v = gen_field_val(rng, &kv[1], cfg);
                        Val::Struct(vec![k, v])
                    })
                    .collect(),
            )
        }
        Union(ufs, _) => {
            let i = rng.below(ufs.len());
            let (tid, f) = ufs.iter().nth(i).unwrap();
            Val::Union(tid, Box::new(gen_field_val(rng, f, cfg)))
        }
        Dictionary(_, v) => gen_value(rng, v, cfg),
        RunEndEncoded(_, v) => gen_value(rng, v.data_type(), cfg),
    }
}

pub fn null_chance(rng: &mut Rng) -> (u32, u32) {
    *rng.pick(&[(0, 1), (1, 10), (1, 4), (1, 2), (9, 10)])
}

pub fn gen_field_val(rng: &mut Rng, f: &Field, cfg: &TypeCfg) -> Val {
    if f.is_nullable() && can_be_null(f.data_type()) && rng.chance(1, 5) {
        Val::Null
    } else {
        gen_value(rng, f.data_type(), cfg)
    }
}

/// Union arrays have no validity of their own: a "null" union slot is a null
/// child value, which the model writes as `Union(tid, Null)`.
pub fn can_be_null(dt: &DataType) -> bool {
    !matches!(dt, DataType::Union(_, _))
}

/// A logical column: `n` values, nulls with a drawn density, duplicates encouraged.
pub fn gen_column(rng: &mut Rng, dt: &DataType, n: usize, nullable: bool, cfg: &TypeCfg) -> Vec<Val> {
    let (nn, nd) = if nullable && can_be_null(dt) {
        null_chance(rng)
    } else {
        (0, 1)
    };
    let dup = rng.chance(1, 3);
    let runs = rng.chance(1, 5);
    let mut out: Vec<Val> = Vec::with_capacity(n);
    // 8-bit dictionary keys: bound the number of distinct values
    let small_dict = matches!(dt, DataType::Dictionary(k, _) if matches!(**k, DataType::Int8 | DataType::UInt8));
    if small_dict && n > 60 {
        let pool: Vec<Val> = (0..40).map(|_| gen_value(rng, dt, cfg)).collect();
        for _ in 0..n {
            if nn > 0 && rng.chance(nn, nd) {
                out.push(Val::Null);
            } else {
                out.push(rng.pick(&pool).clone());
            }
        }
        return out;
    }
    for i in 0..n {
        if matches!(dt, DataType::Null) {
            out.push(Val::Null);
            continue;
        }
        if runs && i > 0 && rng.chance(3, 4) {
            let prev = out[i - 1].clone();
            if nullable || !prev.is_null() {
                out.push(prev);
                continue;
            }
        }
        if nn > 0 && rng.chance(nn, nd) {
            out.push(Val::Null);
        } else if dup && i > 0 && rng.chance(1, 2) {
            let j = rng.below(i);
            if out[j].is_null() && !(nullable && can_be_null(dt)) {
                out.push(gen_value(rng, dt, cfg));
            } else {
                out.push(out[j].clone());
            }
        } else {
            out.push(gen_value(rng, dt, cfg));
        }
    }
    out
}

/// Short class name for evidence tuples.
pub fn type_class(dt: &DataType) -> String {
    use DataType::*;
    match dt {
        Timestamp(u, tz) => format!("Ts({u:?},{})", if tz.is_some() { "tz" } else { "-" }),
        Decimal32(_, s) => format!("D32({})", if *s < 0 { "neg" } else { "pos" }),
        Decimal64(_, s) => format!("D64({})", if *s < 0 { "neg" } else { "pos" }),
        Decimal128(_, s) => format!("D128({})", if *s < 0 { "neg" } else { "pos" }),
        Decimal256(_, s) => format!("D256({})", if *s < 0 { "neg" } else { "pos" }),
        FixedSizeBinary(w) => format!("FSB({})", if *w == 0 { "0" } else { "n" }),
        List(f) => format!("List<{}>", type_class(f.data_type())),
        LargeList(f) => format!("LList<{}>", type_class(f.data_type())),
        ListView(f) => format!("LV<{}>", type_class(f.data_type())),
        LargeListView(f) => format!("LLV<{}>", type_class(f.data_type())),
        FixedSizeList(f, n) => format!(
            "FSL{}<{}>",
            if *n == 0 { "0" } else { "" },
            type_class(f.data_type())
        ),
        Struct(fs) => format!(
            "S<{}>",
            fs.iter()
                .map(|f| type_class(f.data_type()))
                .collect::<Vec<_>>()
                .join(",")
        ),
        Map(e, _) => format!("Map<{}>", type_class(e.data_type())),
        Union(fs, m) => format!(
            "U{}<{}>",
            if *m == UnionMode::Dense { "d" } else { "s" },
            fs.iter()
                .map(|(_, f)| type_class(f.data_type()))
                .collect::<Vec<_>>()
                .join(",")
        ),
        Dictionary(k, v) => format!("Dict<{k:?},{}>", type_class(v)),
        RunEndEncoded(r, v) => format!("REE<{:?},{}>", r.data_type(), type_class(v.data_type())),
        other => format!("{other:?}"),
    }
}
