//! Shared machinery of the arrow-rs runtime monitors (pure-Rust arrow crates
//! only, so everything here also runs under Miri).

pub mod build;
pub mod extract;
pub mod gens;
pub mod mon;
pub mod rng;
pub mod val;
pub mod validate;

pub mod props;

pub use mon::{Ctx, Outcome, Tier, guard, run_op};
pub use rng::Rng;
pub use val::Val;

/// Property runner signature: returns false if the id is unknown.
pub type Runner = fn(&str, &mut Ctx) -> bool;

/// Shared CLI: `<bin> <ID> [--tier quick|thorough|tiny] [--seed N] [--shard i/n]
/// [--out file] [--deadline secs] [--section S --case N] [--verbose]`
pub fn cli_main(extra: Option<Runner>) -> i32 {
    let args: Vec<String> = std::env::args().collect();
    if args.len() < 2 {
        eprintln!("usage: {} <ID> [--tier T] [--seed N] [--shard i/n] [--out f] [--deadline s] [--section S --case N] [--verbose]", args[0]);
        return 2;
    }
    let id = args[1].clone();
    let mut tier = Tier::Quick;
    let mut seed: u64 = 1;
    let (mut shard, mut nshards) = (0usize, 1usize);
    let mut out: Option<String> = None;
    let mut deadline: Option<u64> = None;
    let mut section: Option<String> = None;
    let mut case: Option<u64> = None;
    let mut verbose = false;
    let mut i = 2;
    while i < args.len() {
        let a = args[i].as_str();
        let mut next = || {
            i += 1;
            args.get(i).cloned().unwrap_or_default()
        };
        match a {
            "--tier" => tier = Tier::parse(&next()),
            "--seed" => seed = next().parse().unwrap_or(1),
            "--shard" => {
                let v = next();
                let (a, b) = v.split_once('/').unwrap_or(("0", "1"));
                shard = a.parse().unwrap_or(0);
                nshards = b.parse().unwrap_or(1).max(1);
            }
            "--out" => out = Some(next()),
            "--deadline" => deadline = next().parse().ok(),
            "--section" => section = Some(next()),
            "--case" => case = next().parse().ok(),
            "--verbose" => verbose = true,
            other => {
                eprintln!("unknown argument {other}");
                return 2;
            }
        }
        i += 1;
    }
    mon::install_panic_hook();
    let mut ctx = Ctx::new(&id, tier, seed, shard, nshards, out.as_deref(), deadline);
    ctx.only_case = case;
    ctx.only_section = section;
    ctx.verbose = verbose;
    let known = props::run(&id, &mut ctx) || extra.map(|f| f(&id, &mut ctx)).unwrap_or(false);
    if !known {
        eprintln!("unknown property {id}");
        return 2;
    }
    ctx.finish();
    if ctx.violations > 0 { 1 } else { 0 }
}
