//! Execution monitors: panic monitor, per-run recorder (evaluations, distinct
//! classes, samples, violations), JSONL event log consumed by `/verif/check`.

use crate::rng::{Rng, hash_str, mix};
use std::cell::RefCell;
use std::collections::BTreeSet;
use std::io::Write;
use std::panic::{AssertUnwindSafe, catch_unwind};
use std::time::{Duration, Instant};

#[derive(Clone, Copy, PartialEq, Eq, Debug)]
pub enum Tier {
    /// a handful of cases (Miri / valgrind / smoke)
    Tiny,
    Quick,
    Thorough,
}

impl Tier {
    pub fn parse(s: &str) -> Tier {
        match s {
            "tiny" => Tier::Tiny,
            "thorough" => Tier::Thorough,
            _ => Tier::Quick,
        }
    }
    pub fn name(&self) -> &'static str {
        match self {
            Tier::Tiny => "tiny",
            Tier::Quick => "quick",
            Tier::Thorough => "thorough",
        }
    }
    /// pick a budget by tier
    pub fn pick<T>(&self, tiny: T, quick: T, thorough: T) -> T {
        match self {
            Tier::Tiny => tiny,
            Tier::Quick => quick,
            Tier::Thorough => thorough,
        }
    }
}

#[derive(Clone, Debug)]
pub struct PanicInfo {
    pub msg: String,
    pub loc: String,
}

thread_local! {
    static LAST_PANIC: RefCell<Option<PanicInfo>> = const { RefCell::new(None) };
    static GUARD_DEPTH: std::cell::Cell<u32> = const { std::cell::Cell::new(0) };
}

/// Install a quiet hook that records message and location per thread.
pub fn install_panic_hook() {
    std::panic::set_hook(Box::new(|info| {
        let msg = if let Some(s) = info.payload().downcast_ref::<&str>() {
            s.to_string()
        } else if let Some(s) = info.payload().downcast_ref::<String>() {
            s.clone()
        } else {
            "<non-string panic>".to_string()
        };
        let loc = info
            .location()
            .map(|l| format!("{}:{}", l.file(), l.line()))
            .unwrap_or_default();
        // a panic outside any `guard` is a harness bug or an abort path: make it visible
        if GUARD_DEPTH.with(|d| d.get()) == 0 {
            eprintln!("UNGUARDED PANIC: {msg} @ {loc}");
        }
        LAST_PANIC.with(|p| *p.borrow_mut() = Some(PanicInfo { msg, loc }));
    }));
}

/// Run `f`, turning a panic into `Err(PanicInfo)`.
pub fn guard<T>(f: impl FnOnce() -> T) -> Result<T, PanicInfo> {
    LAST_PANIC.with(|p| *p.borrow_mut() = None);
    GUARD_DEPTH.with(|d| d.set(d.get() + 1));
    let r = catch_unwind(AssertUnwindSafe(f));
    GUARD_DEPTH.with(|d| d.set(d.get().saturating_sub(1)));
    match r {
        Ok(v) => Ok(v),
        Err(_) => Err(LAST_PANIC
            .with(|p| p.borrow_mut().take())
            .unwrap_or(PanicInfo {
                msg: "<panic without hook>".into(),
                loc: String::new(),
            })),
    }
}

impl PanicInfo {
    /// a panic that originates in the harness' own model code, not in arrow-rs
    pub fn is_model(&self) -> bool {
        self.msg.starts_with("model:") || self.loc.contains("/verif/harness/")
    }
    /// `unimplemented!` / "not supported" style rejections
    pub fn is_rejection(&self) -> bool {
        is_rejection_msg(&self.msg)
    }
    /// location with the /repo prefix and the line number stripped
    pub fn file(&self) -> String {
        let f = self.loc.rsplit_once(':').map(|x| x.0).unwrap_or(&self.loc);
        // also normalises scratch worktrees (`/tmp/.../repo/arrow-x/...`)
        match f.rfind("/repo/") {
            Some(i) => f[i + 6..].to_string(),
            None => f.to_string(),
        }
    }
}

pub fn is_rejection_msg(m: &str) -> bool {
    let l = m.to_ascii_lowercase();
    l.contains("not implemented")
        || l.contains("not yet implemented")
        || l.contains("not supported")
        || l.contains("unsupported")
        || l.contains("unimplemented")
        || l.contains("not yet supported")
        || l.contains("nyi")
}

/// digits replaced by '#': stable signature part of a message
pub fn strip_digits(s: &str) -> String {
    let mut out = String::with_capacity(s.len());
    let mut in_num = false;
    for c in s.chars() {
        if c.is_ascii_digit() {
            if !in_num {
                out.push('#');
                in_num = true;
            }
        } else {
            in_num = false;
            out.push(c);
        }
    }
    out.chars().take(160).collect()
}

pub fn json_str(s: &str) -> String {
    let mut o = String::with_capacity(s.len() + 2);
    o.push('"');
    for c in s.chars() {
        match c {
            '"' => o.push_str("\\\""),
            '\\' => o.push_str("\\\\"),
            '\n' => o.push_str("\\n"),
            '\r' => o.push_str("\\r"),
            '\t' => o.push_str("\\t"),
            c if (c as u32) < 0x20 => o.push_str(&format!("\\u{:04x}", c as u32)),
            c => o.push(c),
        }
    }
    o.push('"');
    o
}

pub struct Ctx {
    pub prop: String,
    pub tier: Tier,
    pub seed: u64,
    pub shard: usize,
    pub nshards: usize,
    /// run only this case index (replay)
    pub only_case: Option<u64>,
    pub only_section: Option<String>,
    pub verbose: bool,
    out: Option<std::fs::File>,
    start: Instant,
    deadline: Option<Duration>,
    pub evals: u64,
    pub rejections: u64,
    pub inconclusive: u64,
    pub violations: u64,
    classes: BTreeSet<String>,
    samples: Vec<String>,
    counters: std::collections::BTreeMap<String, u64>,
    cur_case: u64,
    cur_section: String,
    viol_sigs: BTreeSet<String>,
    pub exhaustive: bool,
    /// optional per-property signature normaliser applied to every violation signature
    pub sig_norm: Option<fn(&str) -> String>,
}

impl Ctx {
    pub fn new(
        prop: &str,
        tier: Tier,
        seed: u64,
        shard: usize,
        nshards: usize,
        out: Option<&str>,
        deadline_s: Option<u64>,
    ) -> Ctx {
        let out = out.map(|p| {
            std::fs::OpenOptions::new()
                .create(true)
                .append(true)
                .open(p)
                .expect("open out file")
        });
        Ctx {
            prop: prop.to_string(),
            tier,
            seed,
            shard,
            nshards,
            only_case: None,
            only_section: None,
            verbose: false,
            out,
            start: Instant::now(),
            deadline: deadline_s.map(Duration::from_secs),
            evals: 0,
            rejections: 0,
            inconclusive: 0,
            violations: 0,
            classes: BTreeSet::new(),
            samples: Vec::new(),
            counters: Default::default(),
            cur_case: 0,
            cur_section: String::new(),
            viol_sigs: BTreeSet::new(),
            exhaustive: false,
            sig_norm: None,
        }
    }

    fn emit(&mut self, line: String) {
        if let Some(f) = self.out.as_mut() {
            let _ = writeln!(f, "{line}");
            let _ = f.flush();
        } else {
            println!("{line}");
        }
    }

    /// time budget exhausted (only bounds exploration, never a verdict)
    pub fn out_of_time(&self) -> bool {
        match self.deadline {
            Some(d) => self.start.elapsed() > d,
            None => false,
        }
    }

    /// Iterate the case indices of a section owned by this shard. `section` is
    /// part of the per-case seed so sections are independent; `total` is the
    /// number of cases across all shards.
    pub fn cases(&self, section: &str, total: u64) -> Vec<u64> {
        if let Some(s) = &self.only_section {
            if s != section {
                return vec![];
            }
        }
        if let Some(c) = self.only_case {
            return vec![c];
        }
        (0..total)
            .filter(|i| (*i as usize) % self.nshards == self.shard)
            .collect()
    }

    /// Begin case `index` of `section`: journals it (so an abort is
    /// attributable) and returns the case's own PRNG.
    pub fn begin(&mut self, section: &str, index: u64) -> Rng {
        self.cur_case = index;
        if self.cur_section != section {
            self.cur_section = section.to_string();
        }
        if index % 64 == 0 || self.only_case.is_some() {
            let l = format!(
                "{{\"t\":\"journal\",\"section\":{},\"case\":{index}}}",
                json_str(section)
            );
            self.emit(l);
        }
        Rng::new(mix(
            mix(self.seed, hash_str(&self.prop)),
            mix(hash_str(section), index),
        ))
    }

    pub fn eval(&mut self) {
        self.evals += 1;
    }
    pub fn evals_n(&mut self, n: u64) {
        self.evals += n;
    }
    pub fn count(&mut self, key: &str, n: u64) {
        *self.counters.entry(key.to_string()).or_insert(0) += n;
    }
    /// record the class tuple of a non-trivial case that reached the oracle
    pub fn class(&mut self, c: String) {
        if self.classes.len() < 200_000 {
            self.classes.insert(c);
        }
    }
    pub fn sample(&mut self, s: impl FnOnce() -> String) {
        if self.samples.len() < 4 {
            let v = s();
            let v: String = v.chars().take(1200).collect();
            self.samples.push(v);
        }
    }
    pub fn reject(&mut self) {
        self.rejections += 1;
    }
    pub fn inconclusive(&mut self, why: &str) {
        self.inconclusive += 1;
        let l = format!(
            "{{\"t\":\"inconclusive\",\"section\":{},\"case\":{},\"why\":{}}}",
            json_str(&self.cur_section.clone()),
            self.cur_case,
            json_str(why)
        );
        self.emit(l);
    }

    /// Report a violation. `sig` is the exact known-finding key (must not
    /// contain run-specific data); `detail` is the human-readable witness.
    pub fn violation(&mut self, sig: &str, detail: String) {
        let normed;
        let (sig, detail) = match self.sig_norm {
            Some(f) => {
                normed = f(sig);
                let d = format!("fine signature: {sig}\n{detail}");
                (normed.as_str(), d)
            }
            None => (sig, detail),
        };
        self.violations += 1;
        // one full report per signature per shard, the rest only counted
        if !self.viol_sigs.insert(sig.to_string()) && !self.verbose {
            return;
        }
        let detail: String = detail.chars().take(6000).collect();
        let l = format!(
            "{{\"t\":\"violation\",\"property\":{},\"sig\":{},\"section\":{},\"case\":{},\"shard\":{},\"nshards\":{},\"seed\":{},\"tier\":{},\"detail\":{}}}",
            json_str(&self.prop.clone()),
            json_str(sig),
            json_str(&self.cur_section.clone()),
            self.cur_case,
            self.shard,
            self.nshards,
            self.seed,
            json_str(self.tier.name()),
            json_str(&detail)
        );
        self.emit(l);
        if self.verbose {
            eprintln!("VIOLATION {sig}\n{detail}");
        }
    }

    /// Classify a panic from arrow-rs inside an operation that must not panic.
    pub fn panic_violation(&mut self, op: &str, p: &PanicInfo, detail: String) {
        if p.is_model() {
            self.inconclusive(&format!("harness model panic in {op}: {} @ {}", p.msg, p.loc));
            return;
        }
        let sig = format!(
            "{}|{}|panic|{}|{}",
            self.prop,
            op,
            p.file(),
            strip_digits(&p.msg)
        );
        self.violation(&sig, format!("panic: {} @ {}\n{detail}", p.msg, p.loc));
    }

    pub fn finish(&mut self) {
        let classes: Vec<String> = self.classes.iter().map(|c| json_str(c)).collect();
        let samples: Vec<String> = self.samples.iter().map(|c| json_str(c)).collect();
        let counters: Vec<String> = self
            .counters
            .iter()
            .map(|(k, v)| format!("{}:{v}", json_str(k)))
            .collect();
        let l = format!(
            "{{\"t\":\"summary\",\"shard\":{},\"evals\":{},\"rejections\":{},\"inconclusive\":{},\"violations\":{},\"exhaustive\":{},\"out_of_time\":{},\"elapsed_s\":{:.2},\"classes\":[{}],\"samples\":[{}],\"counters\":{{{}}}}}",
            self.shard,
            self.evals,
            self.rejections,
            self.inconclusive,
            self.violations,
            self.exhaustive,
            self.out_of_time(),
            self.start.elapsed().as_secs_f64(),
            classes.join(","),
            samples.join(","),
            counters.join(",")
        );
        self.emit(l);
    }
}

/// Outcome of an arrow-rs call under the panic monitor.
pub enum Outcome<T> {
    Ok(T),
    /// returned Err(..) (message kept)
    Err(String),
    Panic(PanicInfo),
}

pub fn run_op<T, E: std::fmt::Display>(f: impl FnOnce() -> Result<T, E>) -> Outcome<T> {
    match guard(f) {
        Ok(Ok(v)) => Outcome::Ok(v),
        Ok(Err(e)) => Outcome::Err(e.to_string()),
        Err(p) => Outcome::Panic(p),
    }
}

impl<T> Outcome<T> {
    pub fn class(&self) -> &'static str {
        match self {
            Outcome::Ok(_) => "ok",
            Outcome::Err(_) => "err",
            Outcome::Panic(_) => "panic",
        }
    }
    pub fn is_rejection(&self) -> bool {
        match self {
            Outcome::Ok(_) => false,
            Outcome::Err(m) => is_rejection_msg(m),
            Outcome::Panic(p) => p.is_rejection(),
        }
    }
}
